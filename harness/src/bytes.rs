//! C14: byte formats. Serialise/parse (vs the Lean model), file round trips,
//! reassembly across read() boundaries from pipes and sockets, SigMF archives
//! in all member orders, AU encode → decode.
use crate::common::*;
use crate::drip::gen_data;
use rustradio::block::{Block, BlockRet};
use rustradio::blocks::*;
use rustradio::file_sink::Mode;
use rustradio::stream::{ReadStream, new_stream};
use rustradio::{Complex, Sample};
use std::io::Write;

fn patterns32(rng: &mut Rng) -> Vec<u32> {
    let mut v = vec![0u32, 1, 0xff, 0x100, 0x7fff_ffff, 0x8000_0000, 0xffff_ffff, 0x7fc0_0000, 0x7fa0_0001, 0xffc0_1234,
                     0x7f80_0000, 0xff80_0000, 0x0000_0001, 0x3f80_0000];
    for _ in 0..20 {
        v.push(rng.next() as u32);
    }
    v
}

fn codec_lines(rng: &mut Rng) -> Vec<String> {
    let mut out = vec![];
    for b in [0u8, 1, 127, 128, 255, rng.below(256) as u8] {
        let s = b.serialize();
        let back = u8::parse(&s).map(|v| v as u64);
        out.push(format!("codec u8 {b} 0\t{} -> {},0", s.iter().map(|x| x.to_string()).collect::<Vec<_>>().join(" "), back.unwrap()));
    }
    for p in patterns32(rng) {
        let show = |s: &[u8]| s.iter().map(|x| x.to_string()).collect::<Vec<_>>().join(" ");
        let s = p.serialize();
        out.push(format!("codec u32 {p} 0\t{} -> {},0", show(&s), u32::parse(&s).unwrap()));
        let s = (p as i32).serialize();
        out.push(format!("codec i32 {p} 0\t{} -> {},0", show(&s), i32::parse(&s).unwrap() as u32));
        let f = f32::from_bits(p);
        let s = f.serialize();
        out.push(format!("codec f32 {p} 0\t{} -> {},0", show(&s), f32::parse(&s).unwrap().to_bits()));
        let q = rng.next() as u32;
        let c = Complex::new(f32::from_bits(p), f32::from_bits(q));
        let s = c.serialize();
        let back = Complex::parse(&s).unwrap();
        out.push(format!("codec complex {p} {q}\t{} -> {},{}", show(&s), back.re.to_bits(), back.im.to_bits()));
    }
    out
}

/// Drain a source block completely; returns the samples as bit patterns.
fn drain_all<T: crate::ring::Elem>(b: &mut dyn Block, o: &ReadStream<T>, max_idle: usize) -> Result<Vec<u64>, String> {
    let mut got = vec![];
    let mut idle = 0;
    for _ in 0..2_000_000 {
        let r = quiet(|| b.work().map(|r| matches!(r, BlockRet::EOF)).map_err(|e| e.to_string()));
        let eof = match r {
            Ok(Ok(e)) => e,
            Ok(Err(e)) => return Err(format!("error: {e}")),
            Err(p) => return Err(format!("panic: {p}")),
        };
        let (rb, _) = o.read_buf().unwrap();
        let n = rb.len();
        got.extend(rb.slice().iter().map(|v| v.to_nat() as u64));
        rb.consume(n);
        if eof {
            break;
        }
        if n == 0 {
            idle += 1;
            if idle > max_idle {
                break;
            }
            std::thread::sleep(std::time::Duration::from_micros(200));
        } else {
            idle = 0;
        }
    }
    Ok(got)
}

fn verdict(name: &str, detail: &str, got: Result<Vec<u64>, String>, want: &[u64]) -> String {
    let v = match got {
        Err(e) => format!("FAIL {e}"),
        Ok(g) if g == want => "pass".to_string(),
        Ok(g) => {
            let first = g.iter().zip(want).position(|(a, b)| a != b);
            format!("FAIL got {} samples, expected {}, first difference at {first:?}", g.len(), want.len())
        }
    };
    format!("!bytes {name} {detail}\t{v}")
}

fn file_roundtrip(rng: &mut Rng, idx: usize, dir: &std::path::Path) -> Vec<String> {
    let mut out = vec![];
    let len = *rng.pick(&[0usize, 1, 2, 100, 1023, 1024, 1025, 3000]);
    // f32 through FileSink -> FileSource (bit patterns incl. NaNs)
    {
        let path = dir.join(format!("rt{idx}.f32"));
        let data: Vec<u64> = (0..len).map(|_| (rng.next() as u32) as u64).collect();
        let (w, r) = new_stream::<f32>();
        let mut sink = FileSink::new(r, &path, Mode::Create).unwrap();
        let mut pos = 0;
        while pos < len {
            let mut wb = w.write_buf().unwrap();
            let k = wb.len().min(len - pos).min(rng.range(1, 2000));
            for i in 0..k {
                wb.slice()[i] = f32::from_bits(data[pos + i] as u32);
            }
            wb.produce(k, &[]);
            pos += k;
            sink.work().unwrap();
        }
        // everything a returned work() consumed is in the file: read it back while the sink is still alive
        // (as a reader of the recording does when the graph has returned), or after the sink is gone
        let keep = if rng.chance(1, 2) { Some(sink) } else { drop(sink); None };
        let (mut src, o) = FileSource::<f32>::new(&path).unwrap();
        out.push(verdict("file_roundtrip_f32", &format!("#{idx} len={len} sink-alive={}", keep.is_some()), drain_all(&mut src, &o, 3), &data));
        drop(keep);
    }
    // a backlog larger than any per-call limit a sink might have: default-size stream, 70 000 … 300 000 samples
    // waiting before the first work() call
    if idx % 5 == 0 {
        let path = dir.join(format!("rt{idx}.big"));
        let n = rng.range(70_000, 300_000);
        let data: Vec<u64> = (0..n).map(|i| ((i as u64).wrapping_mul(2654435761) & 0xffff_ffff)).collect();
        rustradio::verif::set_stream_size(0);
        let (w, r) = new_stream::<u32>();
        rustradio::verif::set_stream_size(4096);
        let mut sink = FileSink::new(r, &path, Mode::Create).unwrap();
        {
            let mut wb = w.write_buf().unwrap();
            for i in 0..n {
                wb.slice()[i] = data[i] as u32;
            }
            wb.produce(n, &[]);
        }
        for _ in 0..8 {
            sink.work().unwrap();
        }
        let bytes = std::fs::read(&path).unwrap_or_default();
        let got: Vec<u64> = bytes.chunks_exact(4).map(|c| u32::from_le_bytes([c[0], c[1], c[2], c[3]]) as u64).collect();
        out.push(verdict("file_sink_backlog", &format!("#{idx} samples={n}"), Ok(got), &data));
        drop(sink);
    }
    // complex
    {
        let path = dir.join(format!("rt{idx}.c32"));
        let data: Vec<u64> = (0..len).map(|_| rng.next()).collect();
        let (w, r) = new_stream::<Complex>();
        // Overwrite must truncate: sometimes a longer file is already there
        if rng.chance(1, 2) {
            std::fs::write(&path, vec![0xAAu8; len * 8 + rng.range(1, 500)]).unwrap();
        }
        let mut sink = FileSink::new(r, &path, Mode::Overwrite).unwrap();
        let mut pos = 0;
        while pos < len {
            let mut wb = w.write_buf().unwrap();
            let k = wb.len().min(len - pos);
            for i in 0..k {
                wb.slice()[i] = <Complex as crate::ring::Elem>::from_nat(data[pos + i] as u128);
            }
            wb.produce(k, &[]);
            pos += k;
            sink.work().unwrap();
        }
        let keep = if rng.chance(1, 2) { Some(sink) } else { drop(sink); None };
        let (mut src, o) = FileSource::<Complex>::new(&path).unwrap();
        out.push(verdict("file_roundtrip_complex", &format!("#{idx} len={len} sink-alive={}", keep.is_some()), drain_all(&mut src, &o, 3), &data));
        drop(keep);
    }
    out
}

/// FileSource on a FIFO whose writer imposes the read boundaries.
fn fifo_case(rng: &mut Rng, idx: usize, dir: &std::path::Path) -> String {
    let path = dir.join(format!("fifo{idx}"));
    let cpath = std::ffi::CString::new(path.to_str().unwrap()).unwrap();
    unsafe {
        libc::mkfifo(cpath.as_ptr(), 0o600);
    }
    let len = rng.range(0, 700);
    let data: Vec<u64> = (0..len).map(|_| (rng.next() as u32) as u64).collect();
    let bytes: Vec<u8> = data.iter().flat_map(|v| (*v as u32).to_le_bytes()).collect();
    let style = rng.below(3);
    let mut splits = vec![];
    let mut p = 0;
    while p < bytes.len() {
        let k = match style {
            0 => 1,
            1 => rng.range(1, 7),
            _ => rng.range(1, 900),
        }
        .min(bytes.len() - p);
        splits.push(k);
        p += k;
    }
    let p2 = path.clone();
    let wr = std::thread::spawn(move || {
        let mut f = std::fs::OpenOptions::new().write(true).open(&p2).unwrap();
        let mut p = 0;
        for k in splits {
            f.write_all(&bytes[p..p + k]).unwrap();
            f.flush().unwrap();
            p += k;
            std::thread::yield_now();
            if k < 8 {
                std::thread::sleep(std::time::Duration::from_micros(50));
            }
        }
    });
    let res = FileSource::<u32>::new(&path);
    let got = match res {
        Err(e) => Err(e.to_string()),
        Ok((mut src, o)) => drain_all(&mut src, &o, 200),
    };
    wr.join().ok();
    verdict("fifo_reassembly", &format!("#{idx} len={len} style={style}"), got, &data)
}

/// TcpSource call by call against `tcpStep`: the peer writes one small piece, the block does one `work()`
/// (its blocking `read()` returns exactly that piece on the loopback interface), and what it pushed is recorded.
fn tcp_steps_case(rng: &mut Rng, idx: usize) -> String {
    let complex = rng.chance(1, 2);
    let size = if complex { 8 } else { 4 };
    let listener = std::net::TcpListener::bind("127.0.0.1:0").unwrap();
    let port = listener.local_addr().unwrap().port();
    let nchunks = rng.range(1, 25);
    let style = rng.below(3);
    let chunks: Vec<Vec<u8>> = (0..nchunks)
        .map(|_| {
            let k = match style {
                0 => rng.range(1, 3),
                1 => rng.range(1, 2 * size + 1),
                _ => rng.range(1, 40),
            };
            (0..k).map(|_| rng.below(256) as u8).collect()
        })
        .collect();
    let mut req = format!("tcp {}", if complex { "complex" } else { "u32" });
    for c in &chunks {
        req += " ;";
        for b in c {
            req += &format!(" {b}");
        }
    }
    let (ready_tx, ready_rx) = std::sync::mpsc::channel::<std::net::TcpStream>();
    let acc = std::thread::spawn(move || {
        let (s, _) = listener.accept().unwrap();
        s.set_nodelay(true).ok();
        ready_tx.send(s).ok();
    });
    fn steps<T: rustradio::Sample<Type = T> + Copy + std::fmt::Debug + Default + 'static>(
        port: u16,
        ready_rx: std::sync::mpsc::Receiver<std::net::TcpStream>,
        chunks: &[Vec<u8>],
        show: impl Fn(&T) -> String,
    ) -> Result<String, String> {
        let (mut src, o) = TcpSource::<T>::new("127.0.0.1", port).map_err(|e| e.to_string())?;
        let mut peer = ready_rx.recv_timeout(std::time::Duration::from_secs(5)).map_err(|e| e.to_string())?;
        let mut outs = vec![];
        for c in chunks {
            peer.write_all(c).map_err(|e| e.to_string())?;
            peer.flush().ok();
            src.work().map_err(|e| e.to_string())?;
            let (rb, _) = o.read_buf().map_err(|e| e.to_string())?;
            outs.push(rb.slice().iter().map(&show).collect::<Vec<_>>().join(" "));
            let n = rb.len();
            rb.consume(n);
        }
        Ok(outs.join(" ; "))
    }
    let res = quiet(|| {
        if complex {
            steps::<Complex>(port, ready_rx, &chunks, |v| format!("{},{}", v.re.to_bits(), v.im.to_bits()))
        } else {
            steps::<u32>(port, ready_rx, &chunks, |v| format!("{v},0"))
        }
    });
    acc.join().ok();
    let obs = match res {
        Ok(Ok(s)) => s,
        Ok(Err(e)) => format!("error {e}"),
        Err(p) => format!("panic {p}"),
    };
    let _ = idx;
    format!("{req}\t{obs}")
}

fn tcp_case(rng: &mut Rng, idx: usize) -> String {
    let listener = std::net::TcpListener::bind("127.0.0.1:0").unwrap();
    let port = listener.local_addr().unwrap().port();
    let len = rng.range(0, 500);
    let data: Vec<u64> = (0..len).map(|_| (rng.next() as u32) as u64).collect();
    let bytes: Vec<u8> = data.iter().flat_map(|v| (*v as u32).to_le_bytes()).collect();
    let style = rng.below(3);
    let mut r2 = rng.fork();
    let wr = std::thread::spawn(move || {
        let (mut s, _) = listener.accept().unwrap();
        s.set_nodelay(true).ok();
        let mut p = 0;
        while p < bytes.len() {
            let k = match style {
                0 => 1,
                1 => r2.range(1, 7),
                _ => r2.range(1, 600),
            }
            .min(bytes.len() - p);
            s.write_all(&bytes[p..p + k]).unwrap();
            s.flush().unwrap();
            p += k;
            if k < 8 {
                std::thread::sleep(std::time::Duration::from_micros(300));
            }
        }
    });
    let got = match TcpSource::<u32>::new("127.0.0.1", port) {
        Err(e) => Err(e.to_string()),
        Ok((mut src, o)) => drain_all(&mut src, &o, 50),
    };
    wr.join().ok();
    verdict("tcp_reassembly", &format!("#{idx} len={len} style={style}"), got, &data)
}

/// TcpSource under back-pressure: all bytes are in the socket, the output is not drained until it is
/// full, so the free space shrinks to a single slot while a partial sample is pending. Every call is
/// predicted (bytes read = min(free slots, bytes left)); no call may report EOF before the peer closes.
fn tcp_backpressure_case(rng: &mut Rng, idx: usize) -> String {
    let listener = std::net::TcpListener::bind("127.0.0.1:0").unwrap();
    let port = listener.local_addr().unwrap().port();
    let len = rng.range(1000, 1600);
    let stray = rng.below(4);
    let data: Vec<u64> = (0..len).map(|_| (rng.next() as u32) as u64).collect();
    let mut bytes: Vec<u8> = data.iter().flat_map(|v| (*v as u32).to_le_bytes()).collect();
    bytes.extend(std::iter::repeat(0x55u8).take(stray));
    let total = bytes.len();
    let (tx, rx) = std::sync::mpsc::channel::<()>();
    let (wtx, wrx) = std::sync::mpsc::channel::<()>();
    let wr = std::thread::spawn(move || {
        let (mut s, _) = listener.accept().unwrap();
        s.set_nodelay(true).ok();
        s.write_all(&bytes).unwrap();
        s.flush().unwrap();
        let _ = wtx.send(());
        let _ = rx.recv();
    });
    let id = format!("#{idx} len={len} stray={stray}");
    let res = quiet(|| -> Result<Vec<u64>, String> {
        rustradio::verif::set_stream_size(4096);
        let (mut src, o) = TcpSource::<u32>::new("127.0.0.1", port).map_err(|e| e.to_string())?;
        // everything is written (and, on loopback, queued at the receiver) before the first read
        wrx.recv_timeout(std::time::Duration::from_secs(30)).map_err(|e| e.to_string())?;
        std::thread::sleep(std::time::Duration::from_millis(100));
        let cap = 1024usize;
        let mut avail = total;
        let mut pend = 0usize;
        let mut in_stream = 0usize;
        let mut got: Vec<u64> = vec![];
        let _wd = deadline(60, format!("tcp_backpressure {id}: TcpSource::work()"));
        while avail > 0 {
            let free = cap - in_stream;
            let ret = src.work().map_err(|e| e.to_string())?;
            if free == 0 {
                if !matches!(ret, BlockRet::WaitForStream(_, _)) {
                    return Err(format!("output full: expected a wait for the output, got {ret:?}"));
                }
                let (rb, _) = o.read_buf().map_err(|e| e.to_string())?;
                let n = rb.len();
                got.extend(rb.slice().iter().map(|v| *v as u64));
                rb.consume(n);
                in_stream = 0;
                continue;
            }
            if matches!(ret, BlockRet::EOF) {
                return Err(format!("EOF with {avail} bytes unread and the peer still connected (free slots {free}, partial sample bytes pending {pend})"));
            }
            let r = free.min(avail);
            avail -= r;
            let produced = (pend + r) / 4;
            pend = (pend + r) % 4;
            in_stream += produced;
        }
        let (rb, _) = o.read_buf().map_err(|e| e.to_string())?;
        let n = rb.len();
        got.extend(rb.slice().iter().map(|v| *v as u64));
        rb.consume(n);
        Ok(got)
    });
    let _ = tx.send(());
    wr.join().ok();
    let got = match res {
        Ok(r) => r,
        Err(p) => Err(format!("panic: {p}")),
    };
    verdict("tcp_backpressure", &id, got, &data)
}

fn sigmf_archive_case(rng: &mut Rng, idx: usize, dir: &std::path::Path) -> Vec<String> {
    let mut out = vec![];
    let len = rng.range(0, 2000);
    let data: Vec<u64> = gen_data(len, rng.next() >> 8, 256, &[]);
    let databytes: Vec<u8> = data.iter().map(|v| *v as u8).collect();
    let meta = br#"{"global": {"core:datatype": "ru8_le", "core:version": "1.1.0"}, "captures": [], "annotations": []}"#.to_vec();
    // members: the recording, plus unrelated ones
    let mut members: Vec<(String, Vec<u8>)> = vec![
        ("rec.sigmf-meta".to_string(), meta.clone()),
        ("rec.sigmf-data".to_string(), databytes.clone()),
    ];
    for k in 0..rng.range(0, 3) {
        members.push((format!("notes{k}.txt"), (0..rng.range(0, 700)).map(|_| rng.below(256) as u8).collect()));
    }
    if rng.chance(1, 3) {
        members.push(("other.sigmf-data".to_string(), vec![7; rng.range(0, 100)]));
    }
    if rng.chance(1, 3) {
        // same file name in another directory: a different member (the stem is the whole path)
        members.push(("backup/rec.sigmf-data".to_string(), vec![9; rng.range(0, 100)]));
    }
    // permute
    for i in (1..members.len()).rev() {
        let j = rng.below(i + 1);
        members.swap(i, j);
    }
    let variant = rng.below(6);
    let mut expect_err = false;
    match variant {
        0 => {
            members.retain(|m| m.0 != "rec.sigmf-data");
            expect_err = true;
        }
        1 => {
            members.push(("rec.sigmf-data".to_string(), vec![1, 2, 3]));
            expect_err = true;
        }
        2 => {
            members.push(("second.sigmf-meta".to_string(), meta.clone()));
            expect_err = true;
        }
        _ => {}
    }
    let path = dir.join(format!("arch{idx}.sigmf"));
    {
        let f = std::fs::File::create(&path).unwrap();
        let mut b = tar::Builder::new(f);
        for (name, content) in &members {
            let mut h = tar::Header::new_gnu();
            h.set_size(content.len() as u64);
            h.set_mode(0o644);
            h.set_cksum();
            b.append_data(&mut h, name, &content[..]).unwrap();
        }
        b.finish().unwrap();
    }
    // played once or twice: every pass must read the data member's bytes
    let plays = if rng.chance(1, 2) { 1u64 } else { 2 };
    let built = quiet(|| SigMFSourceBuilder::<u8>::new(path.clone()).repeat(rustradio::Repeat::finite(plays)).build());
    let names: Vec<&str> = members.iter().map(|m| m.0.as_str()).collect();
    let detail = format!("#{idx} len={len} plays={plays} members={names:?}");
    let data: Vec<u64> = (0..plays).flat_map(|_| data.clone()).collect();
    match built {
        Err(p) => out.push(format!("!bytes sigmf_archive {detail}\tFAIL panic: {p}")),
        Ok(Err(e)) => out.push(format!(
            "!bytes sigmf_archive {detail}\t{}",
            if expect_err { "pass".to_string() } else { format!("FAIL refused a good archive: {e}") }
        )),
        Ok(Ok((mut src, o))) => {
            if expect_err {
                out.push(format!("!bytes sigmf_archive {detail}\tFAIL accepted an archive with missing or duplicate members"));
            } else {
                out.push(verdict("sigmf_archive", &detail, drain_all(&mut src, &o, 3), &data));
            }
        }
    }
    // the same lookup in the Lean model: members as (stem, ext, kind, pos, size); positions are not known here,
    // so only the error / ok distinction and the size are compared
    let mut req = String::from("sigmf");
    for (name, content) in &members {
        let (stem, ext) = match name.as_str() {
            "rec.sigmf-meta" => (1, 0),
            "rec.sigmf-data" => (1, 1),
            "second.sigmf-meta" => (2, 0),
            "other.sigmf-data" => (3, 1),
            "backup/rec.sigmf-data" => (4, 1),
            _ => (9, 2),
        };
        req += &format!(" {stem} {ext} 0 0 {}", content.len());
    }
    let obs = if expect_err { "err".to_string() } else { format!("ok 0 {len}") };
    out.push(format!("{req}\t{obs}"));
    out
}

fn au_case(rng: &mut Rng, idx: usize) -> String {
    let len = rng.range(0, 3000);
    let tbl: Vec<f32> = vec![-1.5, -1.0, -0.99997, -0.5, -0.00002, 0.0, 0.00002, 0.3, 0.5, 0.99997, 1.0, 1.5, f32::NAN, f32::INFINITY];
    let xs: Vec<f32> = (0..len).map(|_| if rng.chance(1, 2) { *rng.pick(&tbl) } else { (rng.below(65536) as f32 - 32768.0) / 32768.0 }).collect();
    let want: Vec<u64> = xs.iter().map(|x| (((*x * 32767.0) as i16) as f32 / 32767.0).to_bits() as u64).collect();
    let (w, r) = new_stream::<f32>();
    let (mut enc, bytes) = AuEncode::new(r, rustradio::au::Encoding::Pcm16, 48000, 1);
    let (mut dec, o) = AuDecode::new(bytes, 48000);
    let mut got: Vec<u64> = vec![];
    let mut pos = 0;
    let res = quiet(|| {
        let mut idle = 0;
        while idle < 6 {
            if pos < len && rng.chance(1, 2) {
                let mut wb = w.write_buf().unwrap();
                let k = wb.len().min(len - pos).min(rng.range(1, 900));
                wb.slice()[..k].copy_from_slice(&xs[pos..pos + k]);
                wb.produce(k, &[]);
                pos += k;
            }
            let before = got.len();
            for _ in 0..rng.range(1, 3) {
                let _ = enc.work();
            }
            for _ in 0..rng.range(1, 3) {
                if let Err(e) = dec.work() {
                    return Err(e.to_string());
                }
            }
            if rng.chance(2, 3) {
                let (rb, _) = o.read_buf().unwrap();
                let k = rb.len().min(rng.range(1, 2000));
                got.extend(rb.slice()[..k].iter().map(|v| v.to_bits() as u64));
                rb.consume(k);
            }
            if pos == len {
                // all input written: deterministic flush (a skipped random drain is not "no progress")
                let _ = enc.work();
                if let Err(e) = dec.work() {
                    return Err(e.to_string());
                }
                let (rb, _) = o.read_buf().unwrap();
                let k = rb.len();
                got.extend(rb.slice()[..k].iter().map(|v| v.to_bits() as u64));
                rb.consume(k);
            }
            if got.len() == before && pos == len {
                idle += 1;
            } else {
                idle = 0;
            }
        }
        Ok(())
    });
    let got = match res {
        Ok(Ok(())) => Ok(got),
        Ok(Err(e)) => Err(format!("error: {e}")),
        Err(p) => Err(format!("panic: {p}")),
    };
    verdict("au_roundtrip", &format!("#{idx} len={len}"), got, &want)
}

pub fn run(args: &[String]) -> Vec<String> {
    let seed = arg_usize(args, "--seed", 1) as u64;
    let cases = arg_usize(args, "--cases", 20);
    let mut rng = Rng::new(seed);
    rustradio::verif::set_stream_size(4096);
    let dir = tempfile::tempdir().unwrap();
    if arg(args, "--what").as_deref() == Some("tcp") {
        // only the socket source (used by C15: short reads must not crash it)
        let mut out = vec![];
        for i in 0..cases {
            let mut r = rng.fork();
            out.push(tcp_case(&mut r, i));
            if i % 4 == 0 {
                let mut r = rng.fork();
                out.push(tcp_backpressure_case(&mut r, i));
            }
        }
        return out;
    }
    if arg(args, "--what").as_deref() == Some("fifo") {
        // only FileSource on a named pipe fed in odd-sized pieces (used by C16: exactly the data, once, then EOF)
        let mut out = vec![];
        for i in 0..cases {
            let mut r = rng.fork();
            out.push(fifo_case(&mut r, i, dir.path()));
        }
        return out;
    }
    let mut out = codec_lines(&mut rng);
    // reassembly against the Lean model: synthetic chunkings of synthetic bytes
    for _ in 0..cases * 5 {
        let ty = *rng.pick(&["u8", "u32", "i32", "f32", "complex"]);
        let size = match ty { "u8" => 1, "complex" => 8, _ => 4 };
        let nbytes = rng.range(0, 60);
        let bytes: Vec<u8> = (0..nbytes).map(|_| rng.below(256) as u8).collect();
        let mut req = format!("reasm {ty}");
        let mut p = 0;
        while p < nbytes {
            let k = rng.range(0, 9).min(nbytes - p);
            req += " ;";
            for b in &bytes[p..p + k] {
                req += &format!(" {b}");
            }
            p += k;
        }
        // expected by construction: whole samples of the byte string (little endian), parsed by the real code
        let whole = nbytes / size * size;
        let vals: Vec<String> = bytes[..whole]
            .chunks(size)
            .map(|c| match ty {
                "u8" => format!("{},0", u8::parse(c).unwrap()),
                "u32" => format!("{},0", u32::parse(c).unwrap()),
                "i32" => format!("{},0", i32::parse(c).unwrap() as u32),
                "f32" => format!("{},0", f32::parse(c).unwrap().to_bits()),
                _ => {
                    let v = Complex::parse(c).unwrap();
                    format!("{},{}", v.re.to_bits(), v.im.to_bits())
                }
            })
            .collect();
        out.push(format!("{req}\t{} | {}", vals.join(" "), nbytes - whole));
    }
    for i in 0..cases {
        let mut r = rng.fork();
        out.extend(file_roundtrip(&mut r, i, dir.path()));
        let mut r = rng.fork();
        out.push(fifo_case(&mut r, i, dir.path()));
        let mut r = rng.fork();
        out.push(tcp_case(&mut r, i));
        let mut r = rng.fork();
        out.push(tcp_steps_case(&mut r, i));
        if i % 4 == 0 {
            let mut r = rng.fork();
            out.push(tcp_backpressure_case(&mut r, i));
        }
        let mut r = rng.fork();
        out.extend(sigmf_archive_case(&mut r, i, dir.path()));
        let mut r = rng.fork();
        out.push(au_case(&mut r, i));
    }
    out
}
