//! C17: file sink open modes (vs the Lean model over generated open flags) and
//! durability under SIGKILL (self-checking).
use crate::common::*;
use rustradio::block::Block;
use rustradio::blocks::{FileSink, NoCopyFileSink};
use rustradio::file_sink::Mode;
use rustradio::stream::{new_nocopy_stream, new_stream};
use std::io::{BufRead, BufReader, Write};
use std::process::{Command, Stdio};

/// samples still queued in the stream (not consumed by the sink)
fn r_len(w: &rustradio::stream::WriteStream<u32>) -> usize {
    // capacity of the default stream in u32 samples minus the free space
    let cap = 4_096_000 / 4;
    cap - w.free()
}

fn mode_of(s: &str) -> Mode {
    match s {
        "create" => Mode::Create,
        "overwrite" => Mode::Overwrite,
        _ => Mode::Append,
    }
}

fn show(v: &[u8]) -> String {
    v.iter().map(|b| b.to_string()).collect::<Vec<_>>().join(" ")
}

/// One (sink, mode, initial state) combination on a temp dir. Returns `request\tobserved`.
fn mode_case(sink: &str, mode: &str, initial: &str, old: &[u8], newdata: &[u8], dir: &std::path::Path, idx: usize) -> String {
    let path = match initial {
        "unwritable" => std::path::PathBuf::from("/proc/sys/kernel/ostype"),
        _ => dir.join(format!("f{idx}")),
    };
    match initial {
        "file" => std::fs::write(&path, old).unwrap(),
        "dir" => std::fs::create_dir(&path).unwrap(),
        _ => {}
    }
    rustradio::verif::set_stream_size(4096);
    let res: Result<(), String> = if sink == "stream" {
        let (w, r) = new_stream::<u8>();
        match FileSink::new(r, &path, mode_of(mode)) {
            Err(e) => Err(e.to_string()),
            Ok(mut b) => {
                if !newdata.is_empty() {
                    let mut wb = w.write_buf().unwrap();
                    wb.fill_from_slice(newdata);
                    wb.produce(newdata.len(), &[]);
                }
                b.work().map(|_| ()).map_err(|e| e.to_string())
            }
        }
    } else {
        // packet sink of u32 samples: each packet is 4 bytes LE + newline
        let (w, r) = new_nocopy_stream::<u32>();
        match NoCopyFileSink::new(r, &path, mode_of(mode)) {
            Err(e) => Err(e.to_string()),
            Ok(mut b) => {
                let mut res = Ok(());
                for c in newdata.chunks(5) {
                    w.push(u32::from_le_bytes([c[0], c[1], c[2], c[3]]), &[]);
                    if let Err(e) = b.work() {
                        res = Err(e.to_string());
                    }
                }
                res
            }
        }
    };
    let obs = match res {
        Err(_) => "err".to_string(),
        Ok(()) => {
            let content = std::fs::read(&path).unwrap_or_default();
            format!("ok {}", show(&content)).trim().to_string()
        }
    };
    let old_s = if initial == "file" || initial == "unwritable" { show(old) } else { String::new() };
    let req = format!("fsink {sink} {mode} {initial} {old_s} ; {}", show(newdata));
    format!("{}\t{obs}", req.split_whitespace().collect::<Vec<_>>().join(" "))
}

/// Child process: stream counters through a sink, report the acknowledged count after every work().
pub fn child(args: &[String]) {
    let path = arg(args, "--path").unwrap();
    let sink = arg(args, "--sink").unwrap_or("stream".into());
    let seed = arg_usize(args, "--seed", 1) as u64;
    let mut rng = Rng::new(seed);
    let stdout = std::io::stdout();
    rustradio::verif::set_stream_size(4096);
    let mut next: u32 = 0;
    let mut acked: u64 = 0;
    if sink == "stream" {
        let (w, r) = new_stream::<u32>();
        let mut b = FileSink::new(r, &path, Mode::Overwrite).unwrap();
        loop {
            let mut wb = w.write_buf().unwrap();
            let k = rng.range(1, 700).min(wb.len());
            for i in 0..k {
                wb.slice()[i] = next;
                next = next.wrapping_add(1);
            }
            wb.produce(k, &[]);
            b.work().unwrap();
            acked += k as u64;
            let mut l = stdout.lock();
            writeln!(l, "{acked}").unwrap();
            l.flush().unwrap();
        }
    } else {
        let (w, r) = new_nocopy_stream::<u32>();
        let mut b = NoCopyFileSink::new(r, &path, Mode::Overwrite).unwrap();
        loop {
            let k = rng.range(1, 20);
            for _ in 0..k {
                w.push(next, &[]);
                next = next.wrapping_add(1);
            }
            for _ in 0..k {
                b.work().unwrap();
                acked += 1;
                let mut l = stdout.lock();
                writeln!(l, "{acked}").unwrap();
                l.flush().unwrap();
            }
        }
    }
}

fn kill_case(sink: &str, idx: usize, rng: &mut Rng, dir: &std::path::Path) -> String {
    let path = dir.join(format!("kill{idx}"));
    let exe = std::env::current_exe().unwrap();
    let mut ch = Command::new(exe)
        .args(["fsink-child", "--path", path.to_str().unwrap(), "--sink", sink, "--seed", &rng.next().to_string()])
        .stdout(Stdio::piped())
        .stderr(Stdio::null())
        .spawn()
        .unwrap();
    let out = ch.stdout.take().unwrap();
    let mut rd = BufReader::new(out);
    let lines_before_kill = rng.range(0, 400);
    let mut acked: u64 = 0;
    let mut line = String::new();
    for _ in 0..lines_before_kill {
        line.clear();
        if rd.read_line(&mut line).unwrap_or(0) == 0 {
            break;
        }
        acked = line.trim().parse().unwrap_or(acked);
    }
    // a random extra delay so that the kill lands inside a work() call as well
    std::thread::sleep(std::time::Duration::from_micros(rng.below(300) as u64));
    unsafe {
        libc::kill(ch.id() as i32, libc::SIGKILL);
    }
    let _ = ch.wait();
    // lines the child managed to write before dying are acknowledgements too
    loop {
        line.clear();
        if rd.read_line(&mut line).unwrap_or(0) == 0 {
            break;
        }
        if let Ok(a) = line.trim().parse::<u64>() {
            acked = a;
        }
    }
    let content = std::fs::read(&path).unwrap_or_default();
    let unit = if sink == "stream" { 4 } else { 5 };
    let mut verdict = "pass".to_string();
    let whole = content.len() / unit;
    for i in 0..whole {
        let c = &content[i * unit..(i + 1) * unit];
        let v = u32::from_le_bytes([c[0], c[1], c[2], c[3]]);
        if v != i as u32 || (unit == 5 && c[4] != 10) {
            verdict = format!("FAIL file is not a prefix of the serialised stream at record {i}");
            break;
        }
    }
    if verdict == "pass" && (content.len() as u64) < acked * unit as u64 {
        verdict = format!("FAIL {} records acknowledged but only {} bytes in the file", acked, content.len());
    }
    format!("!kill {sink} #{idx} acked={acked} file_bytes={}\t{verdict}", content.len())
}

/// For the translator (`tools/extract.py`, run under strace): build every sink in every mode on a fresh path, so
/// that the `openat` flags the compiled code really uses can be read off the trace, whatever the source looks like.
pub fn open_probe() {
    use rustradio::file_sink::{FileSink, Mode, NoCopyFileSink};
    let dir = tempfile::tempdir().unwrap();
    for (mname, mk) in [("Create", 0), ("Overwrite", 1), ("Append", 2)] {
        let mode = |k: i32| match k {
            0 => Mode::Create,
            1 => Mode::Overwrite,
            _ => Mode::Append,
        };
        let p1 = dir.path().join(format!("probe-FileSink-{mname}"));
        let (_w, r) = rustradio::stream::new_stream::<u8>();
        let _ = FileSink::new(r, &p1, mode(mk));
        let p2 = dir.path().join(format!("probe-NoCopyFileSink-{mname}"));
        let (_tx, rx) = rustradio::stream::new_nocopy_stream::<Vec<u8>>();
        let _ = NoCopyFileSink::new(rx, p2, mode(mk));
    }
}

pub fn run(args: &[String]) -> Vec<String> {
    let seed = arg_usize(args, "--seed", 1) as u64;
    let kills = arg_usize(args, "--kills", 30);
    let mut rng = Rng::new(seed);
    let dir = tempfile::tempdir().unwrap();
    let mut out = vec![];
    let mut idx = 0;
    for sink in ["stream", "packet"] {
        for mode in ["create", "overwrite", "append"] {
            for initial in ["absent", "file", "file_empty", "dir", "unwritable"] {
                for variant in 0..3 {
                    let old: Vec<u8> = if initial == "file" { (0..rng.range(1, 9)).map(|_| rng.below(256) as u8).collect() } else { vec![] };
                    let (init_name, old) = if initial == "file_empty" { ("file", vec![]) } else { (initial, old) };
                    let n = if sink == "stream" { rng.range(0, 9) } else { 5 * rng.range(0, 2) };
                    let mut newdata: Vec<u8> = (0..n).map(|_| rng.below(256) as u8).collect();
                    if sink == "packet" {
                        for c in newdata.chunks_mut(5) {
                            c[4] = 10;
                        }
                    }
                    if variant == 0 && sink == "stream" {
                        newdata.clear();
                    }
                    // the unwritable file has real content we cannot know in the model: only the error matters
                    if initial == "unwritable" && mode == "create" || initial != "unwritable" || mode != "create" {
                        let line = mode_case(sink, mode, init_name, &old, &newdata, dir.path(), idx);
                        idx += 1;
                        out.push(line);
                    }
                }
            }
        }
    }
    // multi-byte samples appended to a file whose length is not a whole number of samples: the old
    // bytes stay exactly as they are (same request to the byte-level model as the u8 sink)
    for variant in 0..6usize {
        let old: Vec<u8> = (0..(variant % 4 + 4 * (variant / 4) + 1)).map(|_| rng.below(256) as u8).collect();
        let nnew = rng.range(0, 3);
        let vals: Vec<u32> = (0..nnew).map(|_| rng.next() as u32).collect();
        let newdata: Vec<u8> = vals.iter().flat_map(|v| v.to_le_bytes()).collect();
        let path = dir.path().join(format!("a32_{variant}"));
        std::fs::write(&path, &old).unwrap();
        rustradio::verif::set_stream_size(4096);
        let (w, r) = new_stream::<u32>();
        let res: Result<(), String> = match FileSink::new(r, &path, Mode::Append) {
            Err(e) => Err(e.to_string()),
            Ok(mut b) => {
                if !vals.is_empty() {
                    let mut wb = w.write_buf().unwrap();
                    wb.fill_from_slice(&vals);
                    wb.produce(vals.len(), &[]);
                }
                b.work().map(|_| ()).map_err(|e| e.to_string())
            }
        };
        let obs = match res {
            Err(_) => "err".to_string(),
            Ok(()) => format!("ok {}", show(&std::fs::read(&path).unwrap_or_default())).trim().to_string(),
        };
        let req = format!("fsink stream append file {} ; {}", show(&old), show(&newdata));
        out.push(format!("{}\t{obs}", req.split_whitespace().collect::<Vec<_>>().join(" ")));
    }
    // a backlog much larger than any internal chunk: one work() call, default (4 MB) stream
    for (i, n) in [70_000usize, 300_000, 1_000_000].iter().enumerate() {
        rustradio::verif::set_stream_size(0);
        let path = dir.path().join(format!("backlog{i}"));
        let data: Vec<u32> = (0..*n as u32).map(|v| v.wrapping_mul(2654435761)).collect();
        let (w, r) = new_stream::<u32>();
        let res = quiet(|| -> Result<(), String> {
            let mut b = FileSink::new(r, &path, Mode::Overwrite).map_err(|e| e.to_string())?;
            {
                let mut wb = w.write_buf().map_err(|e| e.to_string())?;
                wb.fill_from_slice(&data);
                wb.produce(data.len(), &[]);
            }
            b.work().map(|_| ()).map_err(|e| e.to_string())?;
            let content = std::fs::read(&path).map_err(|e| e.to_string())?;
            let left = { r_len(&w) };
            let acknowledged = data.len() - left;
            let full: Vec<u8> = data.iter().flat_map(|v| v.to_le_bytes()).collect();
            if content.len() > full.len() || content[..] != full[..content.len()] {
                return Err(format!("the file ({} bytes) is not a prefix of the serialised stream", content.len()));
            }
            if content.len() < 4 * acknowledged {
                return Err(format!("{acknowledged} samples consumed but the file holds only {} bytes", content.len()));
            }
            Ok(())
        });
        rustradio::verif::set_stream_size(4096);
        out.push(format!(
            "!fsink backlog samples={n}\t{}",
            match res {
                Ok(Ok(())) => "pass".to_string(),
                Ok(Err(e)) => format!("FAIL {e}"),
                Err(p) => format!("FAIL panic: {p}"),
            }
        ));
    }
    // a device without space: the write (large windows) or the flush (small ones) fails; work() must return the
    // error and must not consume what did not reach the file
    if std::path::Path::new("/dev/full").exists() {
        for n in [1usize, 100, 2047, 2048, 5000] {
            for mode in [Mode::Overwrite, Mode::Append] {
                let mname = if matches!(mode, Mode::Append) { "append" } else { "overwrite" };
                rustradio::verif::set_stream_size(0);
                let (w, r) = new_stream::<u32>();
                let res = quiet(|| -> Result<(), String> {
                    let mut b = FileSink::new(r, "/dev/full", mode).map_err(|e| format!("cannot open /dev/full: {e}"))?;
                    let data: Vec<u32> = (0..n as u32).collect();
                    {
                        let mut wb = w.write_buf().map_err(|e| e.to_string())?;
                        wb.fill_from_slice(&data);
                        wb.produce(data.len(), &[]);
                    }
                    let ret = b.work().map(|_| ());
                    let left = r_len(&w);
                    // keep the failing BufWriter from panicking or blocking on drop
                    std::mem::forget(b);
                    match ret {
                        Ok(()) => Err(format!("work() returned Ok although nothing can be written ({} of {n} samples consumed)", n - left)),
                        Err(_) if left != n => Err(format!("work() failed but consumed {} of {n} samples", n - left)),
                        Err(_) => Ok(()),
                    }
                });
                rustradio::verif::set_stream_size(4096);
                out.push(format!(
                    "!fsink full-device samples={n} mode={mname}\t{}",
                    match res {
                        Ok(Ok(())) => "pass".to_string(),
                        Ok(Err(e)) => format!("FAIL {e}"),
                        Err(p) => format!("FAIL panic: {p}"),
                    }
                ));
            }
        }
    }
    for i in 0..kills {
        let mut r = rng.fork();
        out.push(kill_case(if i % 2 == 0 { "stream" } else { "packet" }, i, &mut r, dir.path()));
    }
    out
}
