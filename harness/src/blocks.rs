//! Catalogue of real blocks for the drip-feed harness (C08, C09, C10, C12, C19).
use crate::common::*;
use crate::drip::*;
use rustradio::block::Block;
use rustradio::blocks::*;
use rustradio::stream::{ReadStream, Tag, TagValue, WriteStream};
use rustradio::Complex;
use crate::ring::Elem;

/// float bit patterns worth trying: 0, -0, ±1, small, large, inf, NaN payloads
pub const F32_TBL: [u64; 16] = [
    0x0000_0000, 0x8000_0000, 0x3f80_0000, 0xbf80_0000, 0x3f00_0000, 0xbe99_999a, 0x4120_0000, 0xc2c8_0000,
    0x7f7f_ffff, 0x0000_0001, 0x7f80_0000, 0xff80_0000, 0x7fc0_0000, 0x7fa0_0001, 0x3eaa_aaab, 0x4049_0fdb,
];

// ---------------------------------------------------------------- harness-defined derive blocks (C19)

macro_rules! arity_block {
    ($name:ident, [$($i:ident),+], [$($o:ident),+]) => {
        #[derive(rustradio::rustradio_macros::Block)]
        #[rustradio(new, sync)]
        pub struct $name {
            $(#[rustradio(in)] $i: ReadStream<u32>,)+
            $(#[rustradio(out)] $o: WriteStream<u32>,)+
        }
    };
}
arity_block!(Ar11, [a], [x]);
arity_block!(Ar12, [a], [x, y]);
arity_block!(Ar13, [a], [x, y, z]);
arity_block!(Ar21, [a, b], [x]);
arity_block!(Ar22, [a, b], [x, y]);
arity_block!(Ar23, [a, b], [x, y, z]);
arity_block!(Ar31, [a, b, c], [x]);
arity_block!(Ar32, [a, b, c], [x, y]);
arity_block!(Ar33, [a, b, c], [x, y, z]);
impl Ar11 { fn process_sync(&self, a: u32) -> u32 { a } }
impl Ar12 { fn process_sync(&self, a: u32) -> (u32, u32) { (a, a.wrapping_add(1)) } }
impl Ar13 { fn process_sync(&self, a: u32) -> (u32, u32, u32) { (a, a.wrapping_add(1), a.wrapping_add(2)) } }
impl Ar21 { fn process_sync(&self, a: u32, b: u32) -> u32 { a.wrapping_add(b) } }
impl Ar22 { fn process_sync(&self, a: u32, b: u32) -> (u32, u32) { let s = a.wrapping_add(b); (s, s.wrapping_add(1)) } }
impl Ar23 { fn process_sync(&self, a: u32, b: u32) -> (u32, u32, u32) { let s = a.wrapping_add(b); (s, s.wrapping_add(1), s.wrapping_add(2)) } }
impl Ar31 { fn process_sync(&self, a: u32, b: u32, c: u32) -> u32 { a.wrapping_add(b).wrapping_add(c) } }
impl Ar32 { fn process_sync(&self, a: u32, b: u32, c: u32) -> (u32, u32) { let s = a.wrapping_add(b).wrapping_add(c); (s, s.wrapping_add(1)) } }
impl Ar33 { fn process_sync(&self, a: u32, b: u32, c: u32) -> (u32, u32, u32) { let s = a.wrapping_add(b).wrapping_add(c); (s, s.wrapping_add(1), s.wrapping_add(2)) } }

/// `sync_tag` with two inputs, two outputs, a `default` field and an `into` field.
#[derive(rustradio::rustradio_macros::Block)]
#[rustradio(new, sync_tag)]
pub struct ArTag22 {
    #[rustradio(in)]
    a: ReadStream<u32>,
    #[rustradio(in)]
    b: ReadStream<u32>,
    #[rustradio(out)]
    x: WriteStream<u32>,
    #[rustradio(out)]
    y: WriteStream<u32>,
    #[rustradio(default)]
    cnt: u32,
    #[rustradio(into)]
    label: String,
}
impl ArTag22 {
    fn process_sync_tags<'a>(&mut self, a: u32, at: &'a [Tag], b: u32, bt: &'a [Tag]) -> (u32, u32, std::borrow::Cow<'a, [Tag]>) {
        let s = a.wrapping_add(b).wrapping_add(self.cnt);
        self.cnt = self.cnt.wrapping_add(1);
        let mut ts: Vec<Tag> = at.to_vec();
        for t in bt {
            let v = match t.val() {
                TagValue::U64(v) => *v + 1,
                _ => 0,
            };
            ts.push(Tag::new(0, t.key(), TagValue::U64(v)));
        }
        assert_eq!(self.label, "lbl");
        (s, s.wrapping_add(1), std::borrow::Cow::Owned(ts))
    }
}
#[derive(rustradio::rustradio_macros::Block)]
#[rustradio(new, sync_tag)]
pub struct ArTag11 {
    #[rustradio(in)]
    a: ReadStream<u32>,
    #[rustradio(out)]
    x: WriteStream<u32>,
    #[rustradio(default)]
    cnt: u32,
}
impl ArTag11 {
    fn process_sync_tags<'a>(&mut self, a: u32, at: &'a [Tag]) -> (u32, std::borrow::Cow<'a, [Tag]>) {
        let s = a.wrapping_add(self.cnt);
        self.cnt = self.cnt.wrapping_add(1);
        (s, std::borrow::Cow::Borrowed(at))
    }
}

/// Constructor argument order: `new()` takes the streams, then the remaining fields IN DECLARATION
/// ORDER (an `into` field declared before a plain one stays before it).
#[derive(rustradio::rustradio_macros::Block)]
#[rustradio(new, sync)]
pub struct ArInto {
    #[rustradio(in)]
    a: ReadStream<u32>,
    #[rustradio(out)]
    x: WriteStream<u32>,
    #[rustradio(into)]
    gain: u64,
    offset: u32,
    #[rustradio(default)]
    seen: u32,
    #[rustradio(into)]
    shift: u64,
}
impl ArInto {
    fn process_sync(&mut self, a: u32) -> u32 {
        self.seen = self.seen.wrapping_add(1);
        ((a as u64 * self.gain + self.offset as u64) >> self.shift) as u32
    }
}

/// Constructor return order: the read ends of the outputs come back in DECLARATION order, also when a
/// no-copy (packet) output is declared before a sample stream output. (The annotated tuple type below
/// makes a different order a compile error of the harness.)
#[derive(rustradio::rustradio_macros::Block)]
#[rustradio(new)]
pub struct ArMixed {
    #[rustradio(in)]
    a: ReadStream<u32>,
    #[rustradio(out)]
    p: rustradio::stream::NCWriteStream<Vec<u32>>,
    #[rustradio(out)]
    x: WriteStream<u32>,
}
impl Block for ArMixed {
    fn work(&mut self) -> rustradio::Result<rustradio::block::BlockRet> {
        let (i, _) = self.a.read_buf()?;
        if i.is_empty() {
            return Ok(rustradio::block::BlockRet::WaitForStream(&self.a, 1));
        }
        let v = i.slice()[0];
        let mut o = self.x.write_buf()?;
        if o.is_empty() {
            return Ok(rustradio::block::BlockRet::WaitForStream(&self.x, 1));
        }
        o.slice()[0] = v + 1;
        o.produce(1, &[]);
        self.p.push(vec![v], &[]);
        i.consume(1);
        Ok(rustradio::block::BlockRet::Again)
    }
}

/// Delay with its control call: `Act::Poke(k)` leaves `k` in `POKE`; the next work() first calls `set_delay(k)`.
pub struct DelayCtl {
    inner: Delay<u32>,
}
impl rustradio::block::BlockName for DelayCtl {
    fn block_name(&self) -> &str {
        "DelayCtl"
    }
}
impl rustradio::block::BlockEOF for DelayCtl {
    fn eof(&mut self) -> bool {
        self.inner.eof()
    }
}
impl Block for DelayCtl {
    fn work(&mut self) -> rustradio::Result<rustradio::block::BlockRet> {
        let pending: Vec<usize> = std::mem::take(&mut *POKE.lock().unwrap());
        for k in pending {
            self.inner.set_delay(k);
        }
        self.inner.work()
    }
}

pub fn ctor_probes() -> Vec<String> {
    let mixed = quiet(|| -> Result<(), String> {
        let (mut f, r) = feeder::<u32>(0);
        let (mut b, p, x): (ArMixed, rustradio::stream::NCReadStream<Vec<u32>>, ReadStream<u32>) = ArMixed::new(r);
        f.push(&[41], &[]);
        b.work().map_err(|e| e.to_string())?;
        let pkt = p.pop().map(|(v, _)| v);
        let (rb, _) = x.read_buf().map_err(|e| e.to_string())?;
        if pkt != Some(vec![41]) || rb.slice() != [42] {
            return Err(format!("packet output delivered {pkt:?}, stream output {:?}", rb.slice()));
        }
        Ok(())
    });
    let mixed_line = format!(
        "!ctor outputs-in-declaration-order (packet output declared first)\t{}",
        match mixed {
            Ok(Ok(())) => "pass".to_string(),
            Ok(Err(e)) => format!("FAIL {e}"),
            Err(p) => format!("FAIL panic: {p}"),
        }
    );
    let r = quiet(|| -> Result<(), String> {
        let (mut f, r) = feeder::<u32>(0);
        // gain 10, offset 1, shift 0: f(3) = 31. Any permutation of the three gives another value.
        let (mut b, o) = ArInto::new(r, 10u32, 1u32, 0u8);
        f.push(&[3, 5], &[]);
        b.work().map_err(|e| e.to_string())?;
        let (rb, _) = o.read_buf().map_err(|e| e.to_string())?;
        let got: Vec<u32> = rb.slice().to_vec();
        if got != vec![31, 51] {
            return Err(format!("new(src, gain=10, offset=1, shift=0) computes {got:?} for [3, 5], expected [31, 51]"));
        }
        Ok(())
    });
    vec![
        mixed_line,
        format!(
            "!ctor into-field-before-plain-field\t{}",
            match r {
                Ok(Ok(())) => "pass".to_string(),
                Ok(Err(e)) => format!("FAIL {e}"),
                Err(p) => format!("FAIL panic: {p}"),
            }
        ),
    ]
}

// ---------------------------------------------------------------- catalogue

/// In self-check mode inputs that make integer arithmetic overflow are left to the probe below.
pub static NO_OVERFLOW: std::sync::atomic::AtomicBool = std::sync::atomic::AtomicBool::new(false);

/// Known defect probes (each yields one self-checking line with a finding key).
pub fn probes() -> Vec<String> {
    let mut out = vec![];
    // integer AddConst/MultiplyConst/Add use `+`/`*`, which panic on overflow (overflow checks are on
    // in the crate's release profile)
    let r = quiet(|| {
        let (f, r) = feeder::<u8>(0);
        let (mut b, _o) = AddConst::new(r, 250u8);
        let mut f = f;
        f.push(&[10], &[]);
        let _ = b.work();
    });
    out.push(format!(
        "!probe int-overflow AddConst<u8>(250) on sample 10\t{}\tint-overflow-panic",
        if r.is_ok() { "pass".to_string() } else { "FAIL work() panicked (attempt to add with overflow)".to_string() }
    ));
    out
}

pub struct Built {
    pub name: String,
    pub params: Vec<u64>,
    pub rig: Rig,
    /// (modulus, table) per input
    pub alphabets: Vec<(u64, Vec<u64>)>,
}

type E<T> = ReadStream<T>;

fn rig1<TI: Elem, TO: Elem>(rng: &mut Rng, f: impl FnOnce(E<TI>) -> (Box<dyn Block>, E<TO>)) -> Rig {
    let (fi, r) = feeder::<TI>(rng.below(5000));
    let (b, o) = f(r);
    Rig { block: b, ins: vec![fi], outs: vec![drainer(o)] }
}
fn rig21<TA: Elem, TB: Elem, TO: Elem>(rng: &mut Rng, f: impl FnOnce(E<TA>, E<TB>) -> (Box<dyn Block>, E<TO>)) -> Rig {
    let (fa, ra) = feeder::<TA>(rng.below(5000));
    let (fb, rb) = feeder::<TB>(rng.below(5000));
    let (b, o) = f(ra, rb);
    Rig { block: b, ins: vec![fa, fb], outs: vec![drainer(o)] }
}
fn rig12<TI: Elem, TO: Elem>(rng: &mut Rng, f: impl FnOnce(E<TI>) -> (Box<dyn Block>, E<TO>, E<TO>)) -> Rig {
    let (fi, r) = feeder::<TI>(rng.below(5000));
    let (b, o1, o2) = f(r);
    Rig { block: b, ins: vec![fi], outs: vec![drainer(o1), drainer(o2)] }
}

fn f32_alpha() -> (u64, Vec<u64>) {
    (0, F32_TBL.to_vec())
}
fn bits_alpha(rng: &mut Rng) -> (u64, Vec<u64>) {
    // mostly clean bits; sometimes a byte stream with values > 1
    if rng.chance(1, 8) { (4, vec![]) } else { (2, vec![]) }
}

pub const SYNC_NAMES: &[&str] = &[
    "addconst_int", "addconst_f32", "mulconst_int", "mulconst_f32", "xorconst", "xor", "add_int", "add_f32", "tee",
    "slicer", "f2c", "mag2", "nrzi", "descrambler", "cac", "cactag", "bursttagger", "map",
];
pub const ARITY_NAMES: &[&str] = &["arity", "aritytag"];

macro_rules! bx {
    ($e:expr) => {{
        let (b, o) = $e;
        (Box::new(b) as Box<dyn Block>, o)
    }};
}

pub fn build(name: &str, rng: &mut Rng) -> Built {
    rustradio::verif::set_stream_size(STREAM_BYTES.load(std::sync::atomic::Ordering::SeqCst));
    let mut params: Vec<u64> = vec![];
    let alphabets: Vec<(u64, Vec<u64>)>;
    let rig = match name {
        "addconst_int" => {
            if rng.chance(1, 2) {
                let v = rng.below(40) as u64;
                params = vec![8, v];
                let wide = rng.chance(1, 6) && !NO_OVERFLOW.load(std::sync::atomic::Ordering::SeqCst);
                alphabets = vec![(if wide { 256 } else { 200 }, vec![])];
                rig1::<u8, u8>(rng, |r| bx!(AddConst::new(r, v as u8)))
            } else {
                let v = rng.below(1000) as u64;
                params = vec![32, v];
                alphabets = vec![(1 << 31, vec![])];
                rig1::<u32, u32>(rng, |r| bx!(AddConst::new(r, v as u32)))
            }
        }
        "addconst_f32" => {
            let v = *rng.pick(&F32_TBL);
            params = vec![v];
            alphabets = vec![f32_alpha()];
            rig1::<f32, f32>(rng, |r| bx!(AddConst::new(r, f32::from_bits(v as u32))))
        }
        "mulconst_int" => {
            let v = rng.below(4) as u64;
            params = vec![32, v];
            alphabets = vec![(1 << 30, vec![])];
            rig1::<u32, u32>(rng, |r| bx!(MultiplyConst::new(r, v as u32)))
        }
        "mulconst_f32" => {
            let v = *rng.pick(&F32_TBL);
            params = vec![v];
            alphabets = vec![f32_alpha()];
            rig1::<f32, f32>(rng, |r| bx!(MultiplyConst::new(r, f32::from_bits(v as u32))))
        }
        "xorconst" => {
            let v = rng.below(256) as u64;
            params = vec![v];
            alphabets = vec![(256, vec![])];
            rig1::<u8, u8>(rng, |r| bx!(XorConst::new(r, v as u8)))
        }
        "map" => {
            // convert::Map through its builder: an arbitrary per-sample closure (here x -> 3x + 7 mod 2^32, or
            // x -> x >> k), changing the sample type in the second form
            let k = rng.below(3) as u64;
            params = vec![k];
            alphabets = vec![(1 << 32, vec![])];
            if k == 0 {
                rig1::<u32, u32>(rng, |r| bx!(rustradio::convert::MapBuilder::new(r, |x: u32| x.wrapping_mul(3).wrapping_add(7)).name("verif-map").build()))
            } else {
                rig1::<u32, u8>(rng, move |r| bx!(rustradio::convert::MapBuilder::new(r, move |x: u32| (x >> (8 * k)) as u8).build()))
            }
        }
        "xor" => {
            alphabets = vec![(256, vec![]), (256, vec![])];
            rig21::<u8, u8, u8>(rng, |a, b| bx!(Xor::new(a, b)))
        }
        "add_int" => {
            params = vec![32];
            alphabets = vec![(1 << 31, vec![]), (1 << 31, vec![])];
            rig21::<u32, u32, u32>(rng, |a, b| bx!(Add::new(a, b)))
        }
        "add_f32" => {
            alphabets = vec![f32_alpha(), f32_alpha()];
            rig21::<f32, f32, f32>(rng, |a, b| bx!(Add::new(a, b)))
        }
        "tee" => {
            alphabets = vec![(1 << 32, vec![])];
            rig12::<u32, u32>(rng, |r| {
                let (b, o1, o2) = Tee::new(r);
                (Box::new(b), o1, o2)
            })
        }
        "slicer" => {
            alphabets = vec![f32_alpha()];
            rig1::<f32, u8>(rng, |r| bx!(BinarySlicer::new(r)))
        }
        "f2c" => {
            alphabets = vec![f32_alpha(), f32_alpha()];
            rig21::<f32, f32, Complex>(rng, |a, b| bx!(FloatToComplex::new(a, b)))
        }
        "mag2" => {
            // complex = two packed f32 patterns: build a table of pairs
            let mut tbl = vec![];
            for _ in 0..16 {
                let re = *rng.pick(&F32_TBL);
                let im = *rng.pick(&F32_TBL);
                tbl.push(re | (im << 32));
            }
            alphabets = vec![(0, tbl)];
            rig1::<Complex, f32>(rng, |r| bx!(ComplexToMag2::new(r)))
        }
        "nrzi" => {
            alphabets = vec![if rng.chance(1, 4) { (256, vec![]) } else { (2, vec![]) }];
            rig1::<u8, u8>(rng, |r| bx!(NrziDecode::new(r)))
        }
        "descrambler" => {
            let (mask, seed, len) = if rng.chance(1, 2) {
                (0x21u64, 0u64, 16u64)
            } else {
                (rng.next() & 0xffff_ffff, rng.next() & 0xffff, rng.range(0, 63) as u64)
            };
            params = vec![mask, seed, len];
            alphabets = vec![bits_alpha(rng)];
            rig1::<u8, u8>(rng, |r| bx!(Descrambler::new(r, mask, seed, len as u8)))
        }
        "cac" | "cactag" => {
            let clen = rng.range(0, 16);
            let code: Vec<u8> = (0..clen).map(|_| rng.below(2) as u8).collect();
            let allowed = rng.range(0, 3) as u64;
            params = vec![allowed];
            params.extend(code.iter().map(|b| *b as u64));
            alphabets = vec![bits_alpha(rng)];
            if name == "cac" {
                rig1::<u8, u8>(rng, |r| bx!(CorrelateAccessCode::new(r, code, allowed as usize)))
            } else {
                rig1::<u8, u8>(rng, |r| bx!(CorrelateAccessCodeTag::new(r, code, "added", allowed as usize)))
            }
        }
        "bursttagger" => {
            let th = *rng.pick(&[0x3e80_0000u64, 0x0000_0000, 0x3f80_0000, 0x7fc0_0000]);
            params = vec![th];
            alphabets = vec![(1 << 32, vec![]), f32_alpha()];
            rig21::<u32, f32, u32>(rng, |a, b| bx!(BurstTagger::new(a, b, f32::from_bits(th as u32), "added")))
        }
        "arity" => {
            let nin = rng.range(1, 3);
            let nout = rng.range(1, 3);
            params = vec![nin as u64, nout as u64];
            alphabets = (0..nin).map(|_| (1u64 << 32, vec![])).collect();
            arity_rig(rng, nin, nout)
        }
        "aritytag" => {
            if rng.chance(1, 2) {
                params = vec![1, 1];
                alphabets = vec![(1 << 32, vec![])];
                rig1::<u32, u32>(rng, |r| bx!(ArTag11::new(r)))
            } else {
                params = vec![2, 2];
                alphabets = vec![(1 << 32, vec![]), (1 << 32, vec![])];
                let (fa, ra) = feeder::<u32>(rng.below(5000));
                let (fb, rb) = feeder::<u32>(rng.below(5000));
                let (b, x, y) = ArTag22::new(ra, rb, "lbl");
                Rig { block: Box::new(b), ins: vec![fa, fb], outs: vec![drainer(x), drainer(y)] }
            }
        }
        _ => return build_hand(name, rng),
    };
    Built { name: name.to_string(), params, rig, alphabets }
}

/// DSP blocks with a Lean model (C11)
pub const DSP_NAMES: &[&str] = &["fir", "fir_c", "hilbert", "iir1", "fastfm", "fftx", "sigsrc_f", "sigsrc_c", "quaddemod", "fftfx", "cma"];

pub const HAND_NAMES: &[&str] = &[
    "skip", "delay", "resampler", "rtlsdr", "fir", "fir_c", "fftfilter", "fftfilter_f", "hilbert", "fftstream",
    "auenc", "zerocross", "symsync", "hdlc", "il2p", "quaddemod", "fastfm", "iir1", "s2pdu", "v2s",
    "totext", "cma", "midpointer", "wpcr", "nullsink", "vectorsink", "zerocross_clk", "symsync_clk",
    "sigsrc_f", "sigsrc_c",
];

/// small integer-valued floats: all sums in the filters are exact
fn int_f32_alpha() -> (u64, Vec<u64>) {
    (0, (-8i32..=8).map(|v| (v as f32).to_bits() as u64).collect())
}
fn wave_alpha() -> (u64, Vec<u64>) {
    (0, [-1.0f32, -0.7, -0.3, -0.1, 0.1, 0.3, 0.7, 1.0, 0.0, 0.5, -0.5].iter().map(|v| v.to_bits() as u64).collect())
}
fn complex_alpha(rng: &mut Rng) -> (u64, Vec<u64>) {
    let mut tbl = vec![];
    for _ in 0..16 {
        let re = (rng.range(0, 8) as i32 - 4) as f32;
        let im = (rng.range(0, 8) as i32 - 4) as f32;
        tbl.push(re.to_bits() as u64 | ((im.to_bits() as u64) << 32));
    }
    (0, tbl)
}

/// complex samples with arbitrary float parts (fractions, huge, tiny, signed zeros, infinities, NaN)
fn complex_any_alpha(rng: &mut Rng) -> (u64, Vec<u64>) {
    let parts = [-1.0f32, -0.7, -0.3, 0.1, 0.3, 0.7071068, 1.0, 0.0, -0.0, 1e-30, -3e20, 2.5e7, f32::INFINITY, f32::NEG_INFINITY, f32::NAN, 1e-42];
    let mut tbl = vec![];
    for _ in 0..24 {
        let re = *rng.pick(&parts);
        let im = *rng.pick(&parts);
        tbl.push(re.to_bits() as u64 | ((im.to_bits() as u64) << 32));
    }
    (0, tbl)
}

pub fn build_hand(name: &str, rng: &mut Rng) -> Built {
    rustradio::verif::set_stream_size(STREAM_BYTES.load(std::sync::atomic::Ordering::SeqCst));
    let mut params: Vec<u64> = vec![];
    let alphabets: Vec<(u64, Vec<u64>)>;
    let rig = match name {
        "skip" => {
            let k = *rng.pick(&[0usize, 1, 2, 5, 100, 1023, 1024, 1025, 3000]);
            params = vec![k as u64];
            alphabets = vec![(1 << 32, vec![])];
            rig1::<u32, u32>(rng, |r| bx!(Skip::new(r, k)))
        }
        "delay" => {
            let k = *rng.pick(&[0usize, 1, 2, 5, 100, 1023, 1024, 1025, 3000]);
            params = vec![k as u64];
            alphabets = vec![(1 << 32, vec![])];
            rig1::<u32, u32>(rng, |r| bx!(Delay::new(r, k)))
        }
        "resampler" => {
            let interp = rng.range(1, 12);
            let deci = rng.range(1, 12);
            params = vec![interp as u64, deci as u64];
            alphabets = vec![(1 << 32, vec![])];
            rig1::<u32, u32>(rng, |r| bx!(RationalResampler::new(r, interp, deci).unwrap()))
        }
        "rtlsdr" => {
            alphabets = vec![(256, vec![])];
            rig1::<u8, Complex>(rng, |r| bx!(RtlSdrDecode::new(r)))
        }
        "fir" => {
            let ntaps = rng.range(1, 40);
            let deci = rng.range(1, 8);
            let taps: Vec<f32> = (0..ntaps).map(|_| (rng.range(0, 6) as i32 - 3) as f32).collect();
            params = vec![deci as u64];
            params.extend(taps.iter().map(|t| t.to_bits() as u64));
            alphabets = vec![int_f32_alpha()];
            rig1::<f32, f32>(rng, |r| bx!(FirFilterBuilder::new(&taps).deci(deci).build(r)))
        }
        "fir_c" => {
            let ntaps = rng.range(1, 20);
            let deci = rng.range(1, 4);
            let taps: Vec<Complex> = (0..ntaps)
                .map(|_| Complex::new((rng.range(0, 4) as i32 - 2) as f32, (rng.range(0, 4) as i32 - 2) as f32))
                .collect();
            params = vec![deci as u64];
            params.extend(taps.iter().map(|t| t.re.to_bits() as u64 | ((t.im.to_bits() as u64) << 32)));
            alphabets = vec![complex_alpha(rng)];
            rig1::<Complex, Complex>(rng, |r| bx!(FirFilterBuilder::new(&taps).deci(deci).build(r)))
        }
        "fftfilter" => {
            let ntaps = rng.range(1, 30);
            let taps: Vec<Complex> = (0..ntaps)
                .map(|_| Complex::new((rng.range(0, 4) as i32 - 2) as f32, (rng.range(0, 4) as i32 - 2) as f32))
                .collect();
            params = vec![ntaps as u64];
            alphabets = vec![complex_alpha(rng)];
            rig1::<Complex, Complex>(rng, |r| bx!(FftFilter::new(r, &taps)))
        }
        "fftx" => {
            // FftFilter around an exact engine (cyclic convolution in integers)
            let ntaps = rng.range(1, 40);
            let taps: Vec<Complex> = (0..ntaps)
                .map(|_| Complex::new((rng.range(0, 4) as i32 - 2) as f32, (rng.range(0, 4) as i32 - 2) as f32))
                .collect();
            params = taps.iter().map(|t| t.re.to_bits() as u64 | ((t.im.to_bits() as u64) << 32)).collect();
            alphabets = vec![complex_alpha(rng)];
            rig1::<Complex, Complex>(rng, |r| bx!(FftFilter::new_engine(r, crate::dsp::ExactEngine::new(&taps))))
        }
        "fftfx" | "fftfx_3" => {
            // FftFilterFloat around the exact engine: the wrapper (inner streams, eof) against the model
            let ntaps = if name == "fftfx_3" { 3 } else { rng.range(1, 40) };
            let taps: Vec<Complex> = (0..ntaps).map(|_| Complex::new((rng.range(0, 4) as i32 - 2) as f32, 0.0)).collect();
            params = taps.iter().map(|t| t.re.to_bits() as u64 | ((t.im.to_bits() as u64) << 32)).collect();
            alphabets = vec![int_f32_alpha()];
            rig1::<f32, f32>(rng, |r| bx!(FftFilterFloat::new_engine(r, crate::dsp::ExactEngine::new(&taps))))
        }
        "fftfilter_f" => {
            let ntaps = rng.range(1, 30);
            let taps: Vec<f32> = (0..ntaps).map(|_| (rng.range(0, 6) as i32 - 3) as f32).collect();
            params = vec![ntaps as u64];
            alphabets = vec![int_f32_alpha()];
            rig1::<f32, f32>(rng, |r| bx!(FftFilterFloat::new(r, &taps)))
        }
        "hilbert" => {
            let ntaps = 2 * rng.range(1, 20) + 1;
            // the model is given the taps the library computes
            let taps = rustradio::fir::hilbert(&rustradio::window::WindowType::Hamming.make_window(ntaps));
            params = taps.iter().map(|t| t.to_bits() as u64).collect();
            alphabets = vec![if rng.chance(1, 2) { int_f32_alpha() } else { wave_alpha() }];
            rig1::<f32, Complex>(rng, |r| bx!(Hilbert::new(r, ntaps, &rustradio::window::WindowType::Hamming)))
        }
        "fftstream_x" => {
            // sizes whose DFT is exact over the Gaussian integers (twiddles 1, -i, -1, i): compared with the model
            let size = *rng.pick(&[1usize, 2, 4, 4]);
            params = vec![size as u64];
            alphabets = vec![complex_alpha(rng)];
            rig1::<Complex, Complex>(rng, |r| bx!(FftStream::new(r, size)))
        }
        "fftstream" => {
            let size = *rng.pick(&[1usize, 2, 4, 8, 16, 64, 100, 512]);
            params = vec![size as u64];
            alphabets = vec![complex_alpha(rng)];
            rig1::<Complex, Complex>(rng, |r| bx!(FftStream::new(r, size)))
        }
        "auenc" => {
            // waveform values, the quantiser's edge cases and float specials
            let mut tbl = wave_alpha().1;
            for v in [1.5f32, -1.5, 0.99997, -0.99997, 0.00002, -0.00002, 1.0000153, f32::NAN, f32::INFINITY, f32::NEG_INFINITY, 3.0e38, -0.0] {
                tbl.push(v.to_bits() as u64);
            }
            alphabets = vec![(0, tbl)];
            params = vec![48000];
            rig1::<f32, u8>(rng, |r| bx!(AuEncode::new(r, rustradio::au::Encoding::Pcm16, 48000, 1)))
        }
        "audec" => {
            // valid header as a table-free byte stream is built by the caller: here raw bytes after a header
            alphabets = vec![(256, vec![])];
            params = vec![48000];
            rig1::<u8, f32>(rng, |r| bx!(AuDecode::new(r, 48000)))
        }
        "zerocross" => {
            let sps = *rng.pick(&[2.5f32, 4.0, 5.2083335, 10.0]);
            params = vec![sps.to_bits() as u64];
            alphabets = vec![wave_alpha()];
            rig1::<f32, f32>(rng, |r| bx!(ZeroCrossing::new(r, sps, 0.1)))
        }
        "symsync" => {
            let sps = *rng.pick(&[2.5f32, 4.0, 5.2083335, 10.0]);
            params = vec![sps.to_bits() as u64, 0.5f32.to_bits() as u64, 0.5f32.to_bits() as u64, 0.5f32.to_bits() as u64];
            alphabets = vec![wave_alpha()];
            rig1::<f32, f32>(rng, |r| {
                let filter = rustradio::iir_filter::IirFilter::new(&[0.5f32, 0.5]);
                bx!(SymbolSync::new(
                    r,
                    sps,
                    0.5,
                    Box::new(rustradio::symbol_sync::TedZeroCrossing::new()),
                    Box::new(filter)
                ))
            })
        }
        "zerocross_clk" => {
            let sps = *rng.pick(&[2.5f32, 4.0, 5.2083335, 10.0]);
            params = vec![sps.to_bits() as u64];
            alphabets = vec![wave_alpha()];
            rig12::<f32, f32>(rng, |r| {
                let (mut b, o) = ZeroCrossing::new(r, sps, 0.1);
                let clk = b.out_clock();
                (Box::new(b) as Box<dyn Block>, o, clk)
            })
        }
        "symsync_clk" => {
            let sps = *rng.pick(&[2.5f32, 4.0, 5.2083335, 10.0]);
            params = vec![sps.to_bits() as u64, 0.5f32.to_bits() as u64, 0.5f32.to_bits() as u64, 0.5f32.to_bits() as u64];
            alphabets = vec![wave_alpha()];
            rig12::<f32, f32>(rng, |r| {
                let filter = rustradio::iir_filter::IirFilter::new(&[0.5f32, 0.5]);
                let (mut b, o) = SymbolSync::new(
                    r,
                    sps,
                    0.5,
                    Box::new(rustradio::symbol_sync::TedZeroCrossing::new()),
                    Box::new(filter),
                );
                let clk = b.out_clock().expect("clock output");
                (Box::new(b) as Box<dyn Block>, o, clk)
            })
        }
        "hdlc" => {
            let min = *rng.pick(&[2usize, 3, 10]);
            let max = *rng.pick(&[10usize, 50, 1500]);
            params = vec![min as u64, max as u64];
            alphabets = vec![(2, vec![])];
            let (fi, r) = feeder::<u8>(rng.below(5000));
            let (b, o) = HdlcDeframer::new(r, min, max);
            Rig { block: Box::new(b), ins: vec![fi], outs: vec![pkt_drainer(o)] }
        }
        "il2p" => {
            alphabets = vec![(2, vec![])];
            let (fi, r) = feeder::<u8>(rng.below(5000));
            let (b, o) = Il2pDeframer::new(r);
            Rig { block: Box::new(b), ins: vec![fi], outs: vec![pkt_drainer(o)] }
        }
        "quaddemod" => {
            alphabets = vec![if rng.chance(1, 2) { complex_alpha(rng) } else { complex_any_alpha(rng) }];
            let gain = *rng.pick(&[1.5f32, 1.0, -0.25, 7957.747]);
            params = vec![gain.to_bits() as u64];
            rig1::<Complex, f32>(rng, |r| bx!(QuadratureDemod::new(r, gain)))
        }
        "fastfm" => {
            alphabets = vec![complex_alpha(rng)];
            rig1::<Complex, f32>(rng, |r| bx!(FastFM::new(r)))
        }
        "iir1" => {
            let alpha = *rng.pick(&[0.25f32, 0.0, 1.0, 0.1, 0.9, 0.33333334]);
            params = vec![alpha.to_bits() as u64];
            alphabets = vec![wave_alpha()];
            rig1::<f32, f32>(rng, |r| bx!(SinglePoleIirFilter::new(r, alpha).unwrap()))
        }
        "s2pdu" => {
            let max = *rng.pick(&[5usize, 50, 5000]);
            let tail = *rng.pick(&[0usize, 1, 3, 20]);
            params = vec![100, max as u64, tail as u64];
            alphabets = vec![(1 << 32, vec![])];
            let (fi, r) = feeder::<u32>(rng.below(5000));
            let (b, o) = StreamToPdu::new(r, "k100", max, tail);
            Rig { block: Box::new(b), ins: vec![fi], outs: vec![pkt_drainer(o)] }
        }
        "v2s" => {
            alphabets = vec![(256, vec![])];
            let (fi, r) = pkt_feeder::<u8>();
            let (b, o) = VecToStream::new(r);
            Rig { block: Box::new(b), ins: vec![fi], outs: vec![drainer(o)] }
        }
        "delayctl" => {
            let d = *rng.pick(&[0usize, 1, 2, 5, 40, 1500, 40, 1500]);
            params = vec![d as u64];
            alphabets = vec![(1 << 32, vec![])];
            POKE.lock().unwrap().clear();
            rig1::<u32, u32>(rng, |r| {
                let (b, o) = Delay::new(r, d);
                (Box::new(DelayCtl { inner: b }) as Box<dyn Block>, o)
            })
        }
        "constsrc" => {
            let val = *rng.pick(&[0u32, 1, 7, u32::MAX, 0x8000_0000]);
            params = vec![val as u64];
            alphabets = vec![];
            let (b, o) = ConstantSource::new(val);
            Rig { block: Box::new(b), ins: vec![], outs: vec![drainer(o)] }
        }
        "totext" => {
            let n = rng.range(1, 3);
            params = vec![n as u64];
            alphabets = (0..n).map(|_| (*rng.pick(&[1000u64, 10, 1 << 32]), vec![])).collect();
            let mut fs: Vec<Box<dyn InPort>> = vec![];
            let mut rs = vec![];
            for _ in 0..n {
                let (f, r) = feeder::<u32>(rng.below(5000));
                fs.push(f);
                rs.push(r);
            }
            let (b, o) = ToText::new(rs);
            Rig { block: Box::new(b), ins: fs, outs: vec![drainer(o)] }
        }
        "cma" => {
            // mostly small Gaussian integers; one case in four has arbitrary parts (infinities, NaN, signed zeros):
            // then the update term 0·∞ turns the taps into NaN for good
            let ntaps = rng.range(1, 7);
            let modulus = *rng.pick(&[1.0f32, 0.5, 2.0, 25.0]);
            let step = *rng.pick(&[0.001f32, 0.5, -1.0]);
            params = vec![ntaps as u64, modulus.to_bits() as u64, step.to_bits() as u64];
            alphabets = vec![if rng.below(4) == 0 { complex_any_alpha(rng) } else { complex_alpha(rng) }];
            rig1::<Complex, Complex>(rng, |r| bx!(CmaEqualizer::new(ntaps, modulus, step, r)))
        }
        "midpointer" => {
            alphabets = vec![wave_alpha()];
            let (fi, r) = pkt_feeder::<f32>();
            let (b, o) = Midpointer::new(r);
            Rig { block: Box::new(b), ins: vec![fi], outs: vec![pkt_drainer(o)] }
        }
        "wpcr" => {
            alphabets = vec![wave_alpha()];
            let (fi, r) = pkt_feeder::<f32>();
            let (b, o) = WpcrBuilder::new(r).samp_rate(50000.0).build();
            Rig { block: Box::new(b), ins: vec![fi], outs: vec![pkt_drainer(o)] }
        }
        "nullsink" => {
            alphabets = vec![(256, vec![])];
            let (fi, r) = feeder::<u8>(rng.below(5000));
            Rig { block: Box::new(NullSink::new(r)), ins: vec![fi], outs: vec![] }
        }
        "vectorsink" => {
            alphabets = vec![(256, vec![])];
            let max = *rng.pick(&[0usize, 1, 3, 100, 700, 4096, 5000, 1_000_000]);
            // on the large streams the sink has room for everything: long windows are stored whole
            let max = if BIG_CASE.load(std::sync::atomic::Ordering::SeqCst) { 1_000_000 } else { max };
            params = vec![max as u64];
            let (fi, r) = feeder::<u8>(rng.below(5000));
            let b = VectorSink::new(r, max);
            let h = b.hook();
            Rig { block: Box::new(b), ins: vec![fi], outs: vec![hook_out(h)] }
        }
        "sigsrc_f" | "sigsrc_c" => {
            // sample rate, frequency (also negative, above the sample rate, zero), amplitude
            let samp = *rng.pick(&[50000.0f32, 48000.0, 1.0, 8000.0, 1e6]);
            let freq = *rng.pick(&[1000.0f32, 1200.0, 0.0, -700.0, 0.25, 12345.678, 60000.0, 1e7, -3e6, 1e-3]);
            let amp = *rng.pick(&[1.0f32, 0.5, 0.0, -2.0, 1e-20, 3.25]);
            params = vec![samp.to_bits() as u64, freq.to_bits() as u64, amp.to_bits() as u64];
            alphabets = vec![];
            if name == "sigsrc_f" {
                let (b, o) = SignalSourceFloat::new(samp, freq, amp);
                Rig { block: Box::new(b), ins: vec![], outs: vec![drainer(o)] }
            } else {
                let (b, o) = SignalSourceComplex::new(samp, freq, amp);
                Rig { block: Box::new(b), ins: vec![], outs: vec![drainer(o)] }
            }
        }
        _ => panic!("unknown block {name}"),
    };
    // Hilbert calls filter_float: the model must use the kernel this build compiles
    let name = if name == "hilbert" && crate::dsp::kernel_name() != "scalar" {
        format!("hilbert_{}", crate::dsp::kernel_name())
    } else if name == "fftfx_3" {
        "fftfx".to_string()
    } else {
        name.to_string()
    };
    Built { name, params, rig, alphabets }
}

fn gen_inspecs(built: &Built, rng: &mut Rng, heavy_tags: bool) -> Vec<InSpec> {
    // a sink that stores tags: always several tags per sample somewhere
    let heavy_tags = heavy_tags || built.name == "vectorsink";
    // a packet input has no capacity of its own: size the data by the block's output stream, so that
    // the output does fill up
    let out_cap = built.rig.outs.iter().map(|o| o.cap()).filter(|c| *c != PKT_CAP).min().unwrap_or(1024);
    let in_cap = built.rig.ins.iter().map(|i| i.cap()).filter(|c| *c != PKT_CAP).max().unwrap_or(out_cap);
    built
        .alphabets
        .iter()
        .enumerate()
        .map(|(j, (m, tbl))| {
            let len = match rng.below(6) {
                0 => rng.range(0, 5),
                1 => rng.range(0, 200),
                2 => in_cap + rng.range(0, 40),
                3 => rng.range(0, 3 * in_cap),
                _ => rng.range(0, 700),
            };
            // a delay longer than the output stream in front of an input that ends at once: the zeros alone
            // take several calls, and the block must not be retired before they are out
            let len = if built.name == "delay" && built.params[0] >= 1025 && len % 2 == 0 { 0 } else { len };
            // a case on large streams: more input than one stream holds (no extra random draw)
            let len = if BIG_CASE.load(std::sync::atomic::Ordering::SeqCst) && len < in_cap { in_cap + len % 4000 } else { len };
            let mut pkts = vec![];
            if built.rig.ins[j].cap() == PKT_CAP {
                let mut left = len;
                while left > 0 {
                    let k = match rng.below(5) {
                        0 => 0,
                        1 => rng.range(1, 8),
                        _ => rng.range(1, 300),
                    }
                    .min(left);
                    pkts.push(k);
                    left -= k;
                }
            }
            let tags = if built.name == "s2pdu" {
                gen_burst_tags_for(rng, len, Some((built.params[1] as usize, built.params[2] as usize)))
            } else if pkts.is_empty() {
                gen_tags(rng, len, heavy_tags)
            } else {
                vec![]
            };
            // a sink that stores tags: more tags than samples on the first samples
            let tags = if built.name == "vectorsink" && len > 0 {
                let mut t = tags;
                for k in 0..(20 + len % 30) {
                    t.push((k % 2.min(len), 1 + (k as u64 % 3), 500 + k as u64));
                }
                t.sort_by_key(|x| x.0);
                t
            } else {
                tags
            };
            if built.name == "audec" && j == 0 {
                let data = au_input(rng, in_cap);
                return InSpec { pkts, len: data.len(), seed: 0, m: *m, tbl: tbl.clone(), tags: vec![], fixed: Some(data) };
            }
            if built.name == "il2p" {
                // valid IL2P transmissions (the library's own test vector) between stretches of random bits,
                // with the "sync" tags CorrelateAccessCodeTag would put on the last bit of each sync word
                if let Some((data, tags)) = il2p_input(rng) {
                    return InSpec { pkts, len: data.len(), seed: 0, m: *m, tbl: tbl.clone(), tags, fixed: Some(data) };
                }
            }
            InSpec { pkts, len, seed: rng.next() >> 8, m: *m, tbl: tbl.clone(), tags, fixed: None }
        })
        .collect()
}

/// `.au` byte streams for AuDecode(48000): mostly valid headers (any data offset >= 24, annotation bytes,
/// any length field) followed by PCM bytes of even or odd length; a quarter with one field wrong or cut short.
pub fn au_input(rng: &mut Rng, in_cap: usize) -> Vec<u64> {
    let mut magic = 0x2e736e64u32;
    let mut off = *rng.pick(&[24u32, 24, 28, 28, 32, 40, 100]);
    let mut enc = 3u32;
    let mut rate = 48000u32;
    let mut chans = 1u32;
    let mut cut = None;
    if rng.chance(1, 4) {
        match rng.below(7) {
            0 => magic ^= 1 << rng.below(32),
            1 => off = *rng.pick(&[0u32, 8, 16, 23]),
            2 => enc = *rng.pick(&[0u32, 2, 4, 0x0300_0000]),
            3 => rate = *rng.pick(&[44100u32, 0, 48001]),
            4 => chans = *rng.pick(&[0u32, 2, 0x0100_0000]),
            5 => cut = Some(rng.range(0, 30)),
            _ => off = 24 + rng.range(0, 3) as u32,
        }
    }
    let body = match rng.below(5) {
        0 => rng.range(0, 5),
        1 => rng.range(0, 200),
        2 => in_cap + rng.range(0, 40),
        3 => rng.range(0, 3 * in_cap),
        _ => rng.range(0, 700),
    };
    // the data-size field is not used by the decoder (the stream decides): unknown, random, exact, odd, too small
    let size_field = match rng.below(6) {
        0 => 0xffff_ffffu32,
        1 => rng.next() as u32,
        2 => body as u32,
        3 => *rng.pick(&[0u32, 1, 2, 3, 5, 7, 9]),
        4 => (body as u32).saturating_sub(1 + rng.below(4) as u32),
        _ => body as u32 + 1 + rng.below(3) as u32,
    };
    let mut b: Vec<u8> = vec![];
    b.extend(magic.to_be_bytes());
    b.extend(off.to_be_bytes());
    b.extend(size_field.to_be_bytes());
    b.extend(enc.to_be_bytes());
    b.extend(rate.to_be_bytes());
    b.extend(chans.to_be_bytes());
    while b.len() < off as usize {
        b.push(rng.below(256) as u8);
    }
    for _ in 0..body {
        b.push(rng.below(256) as u8);
    }
    if let Some(c) = cut {
        b.truncate(c);
    }
    b.iter().map(|v| *v as u64).collect()
}

fn il2p_input(rng: &mut Rng) -> Option<(Vec<u64>, Vec<(usize, u64, u64)>)> {
    let frame: Vec<u64> = std::fs::read("/repo/testdata/il2p.bits").ok()?.iter().map(|b| (*b & 1) as u64).collect();
    let sync: Vec<u64> = rustradio::il2p_deframer::SYNC_WORD.iter().map(|b| *b as u64).collect();
    let at = frame.windows(sync.len()).position(|w| w == &sync[..])? + sync.len() - 1;
    let mut data = vec![];
    let mut tags = vec![];
    for _ in 0..rng.range(1, 4) {
        for _ in 0..rng.range(0, 400) {
            data.push(rng.below(2) as u64);
        }
        if rng.chance(1, 5) && !data.is_empty() {
            // a false sync in the noise
            tags.push((data.len() - 1, 200, 0));
        }
        tags.push((data.len() + at, 200, 0));
        data.extend(&frame);
    }
    for _ in 0..rng.range(0, 200) {
        data.push(rng.below(2) as u64);
    }
    tags.sort_by_key(|t| t.0);
    // the input may end anywhere: right after a sync word, with the last bit of the 120-bit header, inside the payload
    if rng.chance(1, 2) {
        let last_sync = tags.iter().rev().find(|t| t.0 + at < data.len() + at).map(|t| t.0).unwrap_or(0);
        let cut = match rng.below(4) {
            0 => last_sync + 1 + 120,
            1 => last_sync + 1 + rng.range(0, 120),
            2 => last_sync + 1,
            _ => last_sync + 1 + 120 + rng.range(0, 300),
        };
        if cut < data.len() {
            data.truncate(cut);
            tags.retain(|t| t.0 < cut);
        }
    }
    Some((data, tags))
}

/// blocks whose cases stay on one-page streams (slow per sample, or sized for one page)
const NO_BIG: &[&str] = &["il2p", "wpcr", "midpointer", "cma", "symsync", "symsync_clk", "fftfilter", "fftfilter_f", "fftstream", "hilbert"];

/// Model-free checks on the real block: (1) chunking independence — an adversarial
/// drip-feed run and a greedy run of the same block on the same input deliver the same
/// samples/packets (C08) and tags (C12); (2) the C09 acceptor on the adversarial trace.
/// set by the caller for the first case of every block: that case runs on the large streams
pub static FORCE_BIG: std::sync::atomic::AtomicBool = std::sync::atomic::AtomicBool::new(false);
/// the case being generated runs on large streams: its inputs are longer than one of them
static BIG_CASE: std::sync::atomic::AtomicBool = std::sync::atomic::AtomicBool::new(false);

pub fn selfcheck(name: &str, rng: &mut Rng, steps: usize, heavy_tags: bool) -> Vec<String> {
    // one case in ten runs on sixteen-page streams (windows beyond 8192 samples in the greedy run); the choice
    // is made on a copy of the generator so that the other cases are what they were
    let big = ({ let mut peek = rng.clone(); peek.below(10) == 0 } || FORCE_BIG.load(std::sync::atomic::Ordering::SeqCst))
        && !NO_BIG.contains(&name);
    BIG_CASE.store(big, std::sync::atomic::Ordering::SeqCst);
    STREAM_BYTES.store(if big { 65536 } else { 4096 }, std::sync::atomic::Ordering::SeqCst);
    let mut rng_b = rng.clone();
    let built_a = build(name, rng);
    let built_b = build(name, &mut rng_b);
    STREAM_BYTES.store(4096, std::sync::atomic::Ordering::SeqCst);
    let ins = gen_inspecs(&built_a, rng, heavy_tags);
    BIG_CASE.store(false, std::sync::atomic::Ordering::SeqCst);
    let nin = built_a.rig.ins.len();
    let nout = built_a.rig.outs.len();
    let out_cap = built_a.rig.outs.iter().map(|o| o.cap()).min().unwrap_or(4096);
    let lens: Vec<usize> = ins.iter().map(|i| i.len).collect();
    let acts_a = gen_schedule_opt(rng, nin, nout, &lens, out_cap.min(4096), steps, false);
    let acts_b = greedy_schedule(nin, nout, &lens);
    let req = request(&built_a.name, &built_a.params, &built_a.rig, &ins, &acts_a);
    // the adversarial run keeps feeding in pieces until the input is used up (half of the cases)
    let total_in: usize = lens.iter().copied().max().unwrap_or(0);
    let piece = if rng.chance(1, 2) { *rng.pick(&[1usize, 2, 5, 17, 64, 121, 257]) } else { 1_000_000 };
    let piece = if total_in / piece.max(1) > 6000 { 64 } else { piece };
    FLUSH_PIECE.store(piece, std::sync::atomic::Ordering::SeqCst);
    let a = run_case_full(built_a.rig, &ins, &acts_a, true);
    FLUSH_PIECE.store(1_000_000, std::sync::atomic::Ordering::SeqCst);
    let b = run_case_full(built_b.rig, &ins, &acts_b, true);
    let mut out = Vec::new();
    let short = req.split(" ; S").next().unwrap_or("").to_string();
    let sched: String = acts_a.iter().map(show_act).collect::<Vec<_>>().join(" ");
    let id = format!("{short} ; S {sched}");
    // C08: samples/packets identical (one a prefix of the other only if something was left undelivered)
    let mut verdict = "pass".to_string();
    let mut key = "";
    if a.panicked || b.panicked {
        verdict = format!("FAIL panic (adversarial={}, greedy={})", a.panicked, b.panicked);
        key = "panic";
    } else {
        for j in 0..nout {
            // a source has no input to run out of: the two runs stop at different lengths, one is a prefix
            let common = if nin == 0 { a.collected[j].len().min(b.collected[j].len()) } else { usize::MAX };
            let (ca, cb) = (&a.collected[j][..common.min(a.collected[j].len())], &b.collected[j][..common.min(b.collected[j].len())]);
            if ca != cb {
                let la = a.collected[j].len();
                let lb = b.collected[j].len();
                let first = a.collected[j].iter().zip(&b.collected[j]).position(|(x, y)| x != y);
                verdict = format!("FAIL output {j}: drip-fed run delivered {la} items, greedy run {lb}, first difference at {first:?}");
                key = "chunking";
                break;
            }
        }
    }
    out.push(format!("!chunk {id}\t{verdict}\t{}", if key.is_empty() { String::new() } else { format!("{name}-{key}") }));
    // C12: tags identical
    let mut tverdict = "pass".to_string();
    if !a.panicked && !b.panicked {
        for j in 0..nout {
            let common = if nin == 0 { a.collected[j].len().min(b.collected[j].len()) } else { usize::MAX };
            let mut ta: Vec<_> = a.ctags[j].iter().filter(|t| t.0 < common).cloned().collect();
            let mut tb: Vec<_> = b.ctags[j].iter().filter(|t| t.0 < common).cloned().collect();
            ta.sort();
            tb.sort();
            if ta != tb {
                let only_a: Vec<_> = ta.iter().filter(|t| !tb.contains(t)).take(3).collect();
                let only_b: Vec<_> = tb.iter().filter(|t| !ta.contains(t)).take(3).collect();
                tverdict = format!("FAIL output {j}: tags differ: only drip-fed {only_a:?}, only greedy {only_b:?}");
                break;
            }
        }
    }
    out.push(format!("!tags {id}\t{tverdict}\t{}", if tverdict == "pass" { String::new() } else { format!("{name}-tags") }));
    // C09
    let c9 = match c09_accept(&a, 4) {
        Ok(()) => "pass".to_string(),
        Err(e) => format!("FAIL {e}"),
    };
    out.push(format!("!c09 {id}\t{c9}\t{}", if c9 == "pass" { String::new() } else { format!("{name}-verdict") }));
    out.push(eof_sound_line(name, &id, nout, &a, &b));
    // C10 for the converters without a Lean model: the documented function on the real block
    if name == "v2s" && !a.panicked && !b.panicked {
        // vector-to-stream: the concatenation of the packets, nothing lost, nothing added
        let want = ins[0].fixed.clone().unwrap_or_else(|| gen_data(ins[0].len, ins[0].seed, ins[0].m, &ins[0].tbl));
        let sv = if a.collected[0] != want {
            format!("FAIL drip-fed run: {} samples out of {} queued in packets", a.collected[0].len(), want.len())
        } else if b.collected[0] != want {
            format!("FAIL greedy run: {} samples out of {} queued in packets", b.collected[0].len(), want.len())
        } else {
            "pass".to_string()
        };
        out.push(format!("!spec {id}\t{sv}\t{}", if sv == "pass" { String::new() } else { format!("{name}-spec") }));
    }
    out
}

fn arity_block(rs: Vec<ReadStream<u32>>, nout: usize) -> (Box<dyn Block>, Vec<ReadStream<u32>>) {
    let nin = rs.len();
    let mut it = rs.into_iter();
    let mut nx = || it.next().unwrap();
    match (nin, nout) {
        (1, 1) => { let (b, x) = Ar11::new(nx()); (Box::new(b), vec![x]) }
        (1, 2) => { let (b, x, y) = Ar12::new(nx()); (Box::new(b), vec![x, y]) }
        (1, 3) => { let (b, x, y, z) = Ar13::new(nx()); (Box::new(b), vec![x, y, z]) }
        (2, 1) => { let (b, x) = Ar21::new(nx(), nx()); (Box::new(b), vec![x]) }
        (2, 2) => { let (b, x, y) = Ar22::new(nx(), nx()); (Box::new(b), vec![x, y]) }
        (2, 3) => { let (b, x, y, z) = Ar23::new(nx(), nx()); (Box::new(b), vec![x, y, z]) }
        (3, 1) => { let (b, x) = Ar31::new(nx(), nx(), nx()); (Box::new(b), vec![x]) }
        (3, 2) => { let (b, x, y) = Ar32::new(nx(), nx(), nx()); (Box::new(b), vec![x, y]) }
        _ => { let (b, x, y, z) = Ar33::new(nx(), nx(), nx()); (Box::new(b), vec![x, y, z]) }
    }
}

fn arity_rig(rng: &mut Rng, nin: usize, nout: usize) -> Rig {
    let mut fs: Vec<Box<dyn InPort>> = vec![];
    let mut rs: Vec<ReadStream<u32>> = vec![];
    for _ in 0..nin {
        let (f, r) = feeder::<u32>(rng.below(5000));
        fs.push(f);
        rs.push(r);
    }
    let (block, outs) = arity_block(rs, nout);
    Rig { block, ins: fs, outs: outs.into_iter().map(|o| drainer(o) as Box<dyn OutPort>).collect() }
}

/// Exact-fit probes (C09): when what a block has to emit fits the free output space exactly, it
/// must emit it; answering "wait for the output" (for an amount that is already free) is an idle wait.
pub fn fit_probes() -> Vec<String> {
    let mut out = vec![];
    for n in [1usize, 7, 100, 2048] {
        let r = quiet(|| -> Result<(), String> {
            rustradio::verif::set_stream_size(4096);
            let (mut fi, r) = pkt_feeder::<u8>();
            let (mut b, o) = VecToStream::new(r);
            let cap = 4096usize;
            fi.push(&vec![1u64; cap - n], &[]);
            for _ in 0..3 {
                let _ = b.work().map_err(|e| e.to_string())?;
            }
            let have = o.read_buf().map_err(|e| e.to_string())?.0.len();
            if have != cap - n {
                return Err(format!("set-up: {have} samples in the output, expected {}", cap - n));
            }
            fi.push(&vec![2u64; n], &[]);
            let mut verdicts = vec![];
            for _ in 0..3 {
                let ret = b.work().map_err(|e| e.to_string())?;
                verdicts.push(format!("{ret:?}"));
            }
            let have = o.read_buf().map_err(|e| e.to_string())?.0.len();
            if have != cap {
                return Err(format!("a {n}-sample packet with exactly {n} free output samples was not emitted (verdicts {verdicts:?})"));
            }
            Ok(())
        });
        out.push(format!(
            "!c09 v2s exact-fit packet={n}\t{}",
            match r {
                Ok(Ok(())) => "pass".to_string(),
                Ok(Err(e)) => format!("FAIL {e}"),
                Err(p) => format!("FAIL panic: {p}"),
            }
        ));
    }
    // back-pressure: more packet data than the output stream holds, drained only when the block asks
    // for output space; every sample must come out, in order
    for (npk, plen) in [(30usize, 300usize), (9, 1000), (3, 4096), (200, 41)] {
        let r = quiet(|| -> Result<(), String> {
            rustradio::verif::set_stream_size(4096);
            let (mut fi, r) = pkt_feeder::<u8>();
            let (mut b, o) = VecToStream::new(r);
            let mut want: Vec<u8> = vec![];
            for p in 0..npk {
                let pkt: Vec<u64> = (0..plen).map(|i| ((p * 31 + i * 7) % 251) as u64).collect();
                want.extend(pkt.iter().map(|v| *v as u8));
                fi.push(&pkt, &[]);
            }
            let mut got: Vec<u8> = vec![];
            for _ in 0..(npk * 4 + 50) {
                let ret = b.work().map_err(|e| e.to_string())?;
                if !matches!(ret, rustradio::block::BlockRet::Again) {
                    let (rb, _) = o.read_buf().map_err(|e| e.to_string())?;
                    let n = rb.len();
                    got.extend_from_slice(rb.slice());
                    rb.consume(n);
                }
            }
            let (rb, _) = o.read_buf().map_err(|e| e.to_string())?;
            got.extend_from_slice(rb.slice());
            if got != want {
                let first = got.iter().zip(&want).position(|(a, b)| a != b);
                return Err(format!("{} of {} samples delivered, first difference at {first:?}", got.len(), want.len()));
            }
            Ok(())
        });
        out.push(format!(
            "!c10 v2s back-pressure packets={npk}x{plen}\t{}",
            match r {
                Ok(Ok(())) => "pass".to_string(),
                Ok(Err(e)) => format!("FAIL {e}"),
                Err(p) => format!("FAIL panic: {p}"),
            }
        ));
    }
    out
}

/// `eof()` of derive-generated blocks: true iff EVERY input has ended (writer gone) and is drained.
/// All combinations of (writer dropped?, a sample still queued?) per input, arities 1..3 x 1..3,
/// sync_tag blocks and library blocks with two inputs.
pub fn eof_probes(rng: &mut Rng) -> Vec<String> {
    let mut out = vec![];
    let mut cfgs: Vec<(String, Box<dyn Fn(&mut Rng) -> Rig>)> = vec![];
    for nin in 1..=3usize {
        for nout in 1..=3usize {
            cfgs.push((format!("arity {nin} {nout}"), Box::new(move |r: &mut Rng| arity_rig(r, nin, nout))));
        }
    }
    for name in ["aritytag", "add_f32", "xor", "f2c", "add_int", "bursttagger", "tee", "nrzi"] {
        cfgs.push((name.to_string(), Box::new(move |r: &mut Rng| build(name, r).rig)));
    }
    for (label, mk) in &cfgs {
        // (a catalogue entry may build blocks of different arity: the masks follow the rig actually built)
        for rep in 0..64u32 {
            {
                let mut rig = mk(rng);
                let nin = rig.ins.len();
                let closed = rep % (1 << nin);
                let queued = (rep >> nin) % (1 << nin);
                if rep >= 1 << (2 * nin) && nin < 3 && !label.starts_with("aritytag") {
                    continue;
                }
                for j in 0..nin {
                    if queued & (1 << j) != 0 {
                        rig.ins[j].push(&[1], &[]);
                    }
                    if closed & (1 << j) != 0 {
                        rig.ins[j].close();
                    }
                }
                // the readers of some outputs may be gone: that says nothing about the INPUTS having ended
                let nout = rig.outs.len();
                let odrop = (rep as usize / 5) % (1 << nout);
                for j in 0..nout {
                    if odrop & (1 << j) != 0 {
                        rig.outs[j].drop_reader();
                    }
                }
                let got = quiet(|| rig.block.eof());
                let want = closed == (1 << nin) - 1 && queued == 0;
                let v = match got {
                    Ok(g) if g == want => "pass".to_string(),
                    Ok(g) => format!("FAIL eof() = {g}, specification: {want}"),
                    Err(p) => format!("FAIL panic: {p}"),
                };
                out.push(format!("!eof {label} inputs={nin} writer-gone-mask={closed:b} sample-queued-mask={queued:b} reader-gone-mask={odrop:b}\t{v}"));
            }
        }
    }
    out
}

/// C19 with outputs that have DIFFERENT amounts of room: one call processes min over ALL outputs (and inputs),
/// whichever output is the tightest, and commits the same number of samples on every output.
pub fn uneven_output_probes(rng: &mut Rng) -> Vec<String> {
    let mut out = vec![];
    for (nin, nout) in [(1usize, 2usize), (1, 3), (2, 2), (2, 3), (3, 3)] {
        for tight in 0..nout {
            let mut rig = arity_rig(rng, nin, nout);
            let cap = rig.outs[0].cap();
            let k = cap - rng.range(0, 40);
            let vals: Vec<u64> = (0..k).map(|i| (i % 1000) as u64).collect();
            for j in 0..nin {
                rig.ins[j].push(&vals, &[]);
            }
            let first = quiet(|| rig.block.work().map(|_| ()).map_err(|e| e.to_string()));
            // drain: the tight output the least
            let mut room = vec![0usize; nout];
            for j in 0..nout {
                let d = if j == tight { rng.range(1, 20) } else { rng.range(100, 600) };
                rig.outs[j].drain(d);
                room[j] = cap - rig.outs[j].len();
            }
            let more: Vec<u64> = (0..cap).map(|i| (7 * i % 1000) as u64).collect();
            for j in 0..nin {
                rig.ins[j].push(&more, &[]);
            }
            let before: Vec<usize> = (0..nout).map(|j| rig.outs[j].len()).collect();
            let second = quiet(|| rig.block.work().map(|_| ()).map_err(|e| e.to_string()));
            // (after a panic inside work() the stream's mutex is poisoned: looking at it panics again)
            let got: Vec<usize> = quiet(|| (0..nout).map(|j| rig.outs[j].len() - before[j]).collect::<Vec<usize>>()).unwrap_or_default();
            let want = *room.iter().min().unwrap();
            let v = match (first, second) {
                (Err(p), _) | (_, Err(p)) => format!("FAIL panic: {p}"),
                (Ok(Err(e)), _) | (_, Ok(Err(e))) => format!("FAIL error: {e}"),
                _ if got.iter().all(|g| *g == want) => "pass".to_string(),
                _ => format!("FAIL room {room:?}: one call committed {got:?}, specification: {want} on every output"),
            };
            out.push(format!("!uneven arity {nin} {nout} tightest-output={tight} room={room:?}\t{v}\t{}", if v == "pass" { "" } else { "uneven-outputs" }));
        }
    }
    out
}

/// C19 with a reader thread that consumes from the output exactly between the generated `work()`'s acquisition
/// of its write window and the rest of the call (hook `WRITE_BUF_RETURN`): the call must stay within the window
/// it was given — what it processes is min(input, window), and the samples delivered are the function of the
/// input, in order.
pub fn window_race_probes(rng: &mut Rng) -> Vec<String> {
    let mut out = vec![];
    for round in 0..4 {
        let (mut fi, r) = feeder::<u32>(rng.below(5000));
        let (mut b, o) = Ar11::new(r);
        let cap = 1024usize;
        let room = rng.range(1, 6);
        let first = cap - room;
        let vals: Vec<u64> = (0..first).map(|i| i as u64).collect();
        fi.push(&vals, &[]);
        let r1 = quiet(|| b.work().map(|_| ()).map_err(|e| e.to_string()));
        let more = rng.range(50, 300);
        let vals2: Vec<u64> = (0..more).map(|i| (first + i) as u64).collect();
        fi.push(&vals2, &[]);
        let take = rng.range(20, 200);
        let o = std::sync::Arc::new(o);
        let o2 = o.clone();
        let (res, reached) = crate::waits::race(
            rustradio::verif::pt::WRITE_BUF_RETURN,
            move || {
                let r = quiet(|| b.work().map(|_| ()).map_err(|e| e.to_string()));
                matches!(r, Ok(Ok(())))
            },
            move || {
                if let Ok((rb, _)) = o2.read_buf() {
                    let n = take.min(rb.len());
                    rb.consume(n);
                }
            },
        );
        // what the reader is shown now: the samples after the `take` consumed ones, in order, nothing stale
        let got: Vec<u64> = quiet(|| o.read_buf().map(|(rb, _)| rb.slice().iter().map(|v| *v as u64).collect::<Vec<u64>>()).unwrap_or_default()).unwrap_or_default();
        let want_len = first + room.min(more) - take.min(first);
        let in_order = got.iter().enumerate().all(|(i, v)| *v == (take.min(first) + i) as u64);
        let v = if !matches!(r1, Ok(Ok(()))) {
            "FAIL first call failed".to_string()
        } else if !res {
            "FAIL the call that raced with the reader failed or panicked".to_string()
        } else if got.len() != want_len || !in_order {
            format!("FAIL reader sees {} samples (specification: {want_len}), in order: {in_order}", got.len())
        } else {
            "pass".to_string()
        };
        out.push(format!("!winrace arity 1 1 round={round} room={room} more={more} consumed-meanwhile={take} gate-reached={reached}\t{v}\t{}", if v == "pass" { "" } else { "window-race" }));
    }
    out
}

/// C19 on default-size (4 MB) streams: one call of a generated sync `work()` processes exactly
/// min(shortest input, smallest output space) steps, however many that is.
pub fn big_step_probes(rng: &mut Rng) -> Vec<String> {
    let mut out = vec![];
    for (nin, nout) in [(1usize, 1usize), (2, 1), (1, 2), (2, 2), (3, 3)] {
        // the library's default stream size
        rustradio::verif::set_stream_size(0);
        let mut ws = vec![];
        let mut rs = vec![];
        for _ in 0..nin {
            let (w, r) = rustradio::stream::new_stream::<u32>();
            ws.push(w);
            rs.push(r);
        }
        let (mut block, outs) = arity_block(rs, nout);
        rustradio::verif::set_stream_size(4096);
        let cap = ws[0].free();
        let amounts: Vec<usize> = (0..nin).map(|_| rng.range(70_000.min(cap), cap.min(400_000))).collect();
        for j in 0..nin {
            let mut wb = ws[j].write_buf().unwrap();
            for i in 0..amounts[j] {
                wb.slice()[i] = (i % 1000) as u32;
            }
            wb.produce(amounts[j], &[]);
        }
        let want = *amounts.iter().min().unwrap();
        let r = quiet(|| block.work().map(|_| ()).map_err(|e| e.to_string()));
        let got: Vec<usize> = outs.iter().map(|o| o.read_buf().map(|(b, _)| b.len()).unwrap_or(usize::MAX)).collect();
        let v = match r {
            Err(p) => format!("FAIL panic: {p}"),
            Ok(Err(e)) => format!("FAIL error: {e}"),
            Ok(Ok(())) if got.iter().all(|g| *g == want) => "pass".to_string(),
            Ok(Ok(())) => format!("FAIL one call emitted {got:?} samples, specification: {want} on every output"),
        };
        out.push(format!("!bigsteps arity {nin} {nout} readable={amounts:?} capacity={cap}\t{v}\t{}", if v == "pass" { "" } else { "big-steps" }));
    }
    out
}

/// One drip-feed case of block `name`. Returns `request<TAB>observed`.
/// Blocks whose output rate differs from their input rate or that keep state per sample: run with the output
/// kept (nearly) full — fill it, then drain a few samples at a time, the second output (if any) more slowly —
/// against the greedy run. Chunking must not matter and nothing may panic or be written past a window.
pub const TIGHT_NAMES: &[&str] = &[
    "symsync", "symsync_clk", "zerocross", "zerocross_clk", "fir", "fir_c", "resampler", "quaddemod", "fastfm", "iir1",
    "hilbert", "skip", "delay", "rtlsdr", "cma", "fftfilter", "fftfilter_f", "auenc", "fftstream",
];

/// a tag every 1..60 samples (sometimes two on one sample): wherever a call is cut short, tags are near
fn gen_tags_dense(rng: &mut Rng, len: usize) -> Vec<(usize, u64, u64)> {
    let mut v = vec![];
    let stride = *rng.pick(&[3usize, 9, 25, 60]);
    let mut pos = rng.below(stride);
    while pos < len {
        v.push((pos, rng.below(4) as u64, rng.below(1000) as u64));
        if rng.chance(1, 6) {
            v.push((pos, rng.below(4) as u64, rng.below(1000) as u64));
        }
        pos += 1 + rng.below(stride);
    }
    v
}

/// C20: the real (f32) ZeroCrossing on ideal NRZ waveforms — the statement of `c20_zero_crossing_ideal`
/// (proved for exact arithmetic) checked on the implementation's float arithmetic: symbol `s` occupies
/// the sample instants [s*sps, (s+1)*sps); exactly one output per symbol, carrying its sign.
pub fn zc_ideal_check(rng: &mut Rng) -> String {
    let sps = *rng.pick(&[4.0f32, 4.5, 5.2083335, 6.25, 8.0, 10.416667, 20.0, 50.0]);
    let m = match rng.below(4) {
        0 => rng.range(1, 40),
        1 => rng.range(40, 600),
        _ => rng.range(600, 5000),
    };
    // the drip harness flushes a bounded number of times: keep the waveform below ~60000 samples
    let m = m.min((60000.0 / sps) as usize);
    // runs of equal symbols: short ones as after a scrambler, sometimes very long ones
    let mut syms: Vec<bool> = Vec::with_capacity(m);
    let mut cur = rng.chance(1, 2);
    while syms.len() < m {
        let run = match rng.below(10) {
            0 => rng.range(10, 200),
            1 => rng.range(3, 10),
            _ => rng.range(1, 4),
        };
        for _ in 0..run {
            if syms.len() < m {
                syms.push(cur);
            }
        }
        cur = !cur;
    }
    let spsd = sps as f64;
    let n = (m as f64 * spsd).ceil() as usize;
    let amp = *rng.pick(&[1.0f32, 0.25, 3.0]);
    let data: Vec<u64> = (0..n)
        .map(|i| {
            let s = ((i as f64) / spsd).floor() as usize;
            let v = if syms[s.min(m - 1)] { amp } else { -amp };
            v.to_bits() as u64
        })
        .collect();
    let rig = rig1::<f32, f32>(rng, |r| bx!(ZeroCrossing::new(r, sps, 0.1)));
    let ins = vec![InSpec { pkts: vec![], len: n, seed: 0, m: 0, tbl: vec![], tags: vec![], fixed: Some(data) }];
    let out_cap = rig.outs[0].cap();
    let acts = if rng.chance(1, 2) { greedy_schedule(1, 1, &[n]) } else { gen_schedule(rng, 1, 1, &[n], out_cap, 60) };
    let run = run_case_full(rig, &ins, &acts, true);
    let id = format!("!zcideal sps={sps} symbols={m} samples={n} amp={amp} first={}", syms[0]);
    if run.panicked {
        return format!("{id}\tFAIL panic\tzc-ideal");
    }
    if run.exhausted {
        return format!("{id}\tFAIL the run did not settle\tzc-ideal");
    }
    let got: Vec<bool> = run.collected[0].iter().map(|b| f32::from_bits(*b as u32) > 0.0).collect();
    if got == syms {
        format!("{id}\tpass")
    } else {
        let first = got.iter().zip(&syms).position(|(a, b)| a != b);
        format!(
            "{id}\tFAIL {} symbols out for {} in, first difference at {first:?}\tzc-ideal",
            got.len(),
            syms.len()
        )
    }
}

pub fn tight_selfcheck(name: &str, rng: &mut Rng) -> Vec<String> {
    let mut rng_b = rng.clone();
    let built_a = build(name, rng);
    let built_b = build(name, &mut rng_b);
    let nout = built_a.rig.outs.len();
    let out_cap = built_a.rig.outs.iter().map(|o| o.cap()).min().unwrap_or(1024);
    let in_cap = built_a.rig.ins.iter().map(|i| i.cap()).max().unwrap_or(4096);
    let (m, tbl) = built_a.alphabets[0].clone();
    // enough input to fill the output several times even at 10 samples per symbol
    let len = in_cap * rng.range(3, 7) + out_cap * rng.range(2, 12);
    let ins = vec![InSpec { pkts: vec![], len, seed: rng.next() >> 8, m, tbl, tags: gen_tags_dense(rng, len), fixed: None }];
    let mut acts = Vec::new();
    for _ in 0..(2 + len / in_cap.max(1)) {
        acts.push(Act::Feed(0, 1_000_000));
        acts.push(Act::Work);
        acts.push(Act::Work);
    }
    let k0 = *rng.pick(&[1usize, 2, 3, 7, 13]);
    for i in 0..(len / 4 + 400).min(6000) {
        let k = 1 + (i * 7 + k0) % (2 * k0 + 1);
        acts.push(Act::Drain(0, k));
        if nout > 1 && i % 3 == 0 {
            acts.push(Act::Drain(1, k / 2));
        }
        acts.push(Act::Feed(0, 1_000_000));
        acts.push(Act::Work);
        if i % 5 == 0 {
            acts.push(Act::Work);
        }
        if i % 7 == 3 {
            // several calls in a row with nothing changed in between: a block that cannot progress must say what
            // it waits for, not "call me again"
            for _ in 0..5 {
                acts.push(Act::Work);
            }
        }
    }
    let acts_b = greedy_schedule(1, nout, &[len]);
    let short = request(&built_a.name, &built_a.params, &built_a.rig, &ins, &[]);
    let id = format!("{short} tight k0={k0} len={len}");
    let a = run_case_full(built_a.rig, &ins, &acts, true);
    let b = run_case_full(built_b.rig, &ins, &acts_b, true);
    let mut out = Vec::new();
    let mut verdict = "pass".to_string();
    if a.panicked || b.panicked {
        verdict = format!("FAIL panic (tight={}, greedy={})", a.panicked, b.panicked);
    } else {
        for j in 0..nout {
            if a.collected[j] != b.collected[j] {
                let first = a.collected[j].iter().zip(&b.collected[j]).position(|(x, y)| x != y);
                verdict = format!(
                    "FAIL output {j}: run with the output kept full delivered {} items, greedy run {}, first difference at {first:?}",
                    a.collected[j].len(),
                    b.collected[j].len()
                );
                break;
            }
        }
    }
    out.push(format!("!chunk {id}\t{verdict}\t{}", if verdict == "pass" { String::new() } else { format!("{name}-tight") }));
    // C12: with the output kept full the very same tags must arrive, on the same output samples
    let mut tverdict = "pass".to_string();
    if !a.panicked && !b.panicked {
        for j in 0..nout {
            let mut ta = a.ctags[j].clone();
            let mut tb = b.ctags[j].clone();
            ta.sort();
            tb.sort();
            if ta != tb {
                let only_a: Vec<_> = ta.iter().filter(|t| !tb.contains(t)).take(3).collect();
                let only_b: Vec<_> = tb.iter().filter(|t| !ta.contains(t)).take(3).collect();
                tverdict = format!("FAIL output {j}: tags differ: only with the output kept full {only_a:?}, only greedy {only_b:?}");
                break;
            }
        }
    }
    out.push(format!("!tags {id}\t{tverdict}\t{}", if tverdict == "pass" { String::new() } else { format!("{name}-tight-tags") }));
    let c9 = match c09_accept(&a, 4) {
        Ok(()) => "pass".to_string(),
        Err(e) => format!("FAIL {e}"),
    };
    out.push(format!("!c09 {id}\t{c9}\t{}", if c9 == "pass" { String::new() } else { format!("{name}-tight-verdict") }));
    out.push(eof_sound_line(name, &id, nout, &a, &b));
    out
}

/// eof() soundness (what both runners rely on to retire a block): once eof() has answered true after a wait
/// verdict, further calls must not deliver anything — otherwise a runner that retires the block loses it
fn eof_sound_line(name: &str, id: &str, nout: usize, a: &RunOut, b: &RunOut) -> String {
    let mut ev = "pass".to_string();
    for (which, r) in [("adversarial", a), ("greedy", b)] {
        if let Some((call, at)) = &r.eof_true_at {
            for j in 0..nout {
                if r.produced_total[j] > at[j] {
                    ev = format!(
                        "FAIL {which} run: after call {call} the runners retire the block (eof() true, or a wait on an ended input that cannot be satisfied) with {} items delivered on output {j}; the calls after it delivered {} more (lost)",
                        at[j],
                        r.produced_total[j] - at[j]
                    );
                }
            }
        }
    }
    format!("!eofsound {id}\t{ev}\t{}", if ev == "pass" { String::new() } else { format!("{name}-eof-early") })
}

/// FftFilterFloat around the exact engine, compared with the wrapper model call by call (eof() answers
/// included): the output is left full until both the outer output stream and the inner output stream have
/// filled up, then the input ends and the backlog is taken in one go. The input length is swept over a range
/// that contains every alignment of "exactly one batch still unfiltered inside" (the boundary of `eof()`).
pub fn fftfx_probes(rng: &mut Rng) -> Vec<String> {
    let mut out = vec![];
    for total in 1520..1700usize {
        let mut r = rng.clone();
        let built = build("fftfx_3", &mut r);
        let ins = vec![InSpec { pkts: vec![], len: total, seed: 7 + total as u64, m: 0, tbl: int_f32_alpha().1, tags: vec![], fixed: None }];
        let mut acts = vec![];
        for _ in 0..8 {
            acts.push(Act::Feed(0, 100_000));
            acts.push(Act::Work);
        }
        acts.push(Act::Close(0));
        for _ in 0..4 {
            acts.push(Act::Work);
            acts.push(Act::Drain(0, 100_000));
            acts.push(Act::Work);
        }
        let req = request(&built.name, &built.params, &built.rig, &ins, &acts);
        let obs = run_case(built.rig, &ins, &acts);
        out.push(format!("{req}\t{obs}"));
    }
    out
}

pub fn case(name: &str, rng: &mut Rng, steps: usize, heavy_tags: bool) -> String {
    let built = build(name, rng);
    let nin = built.rig.ins.len();
    let nout = built.rig.outs.len();
    let out_cap = built.rig.outs.iter().map(|o| o.cap()).min().unwrap_or(4096);
    let in_cap = built.rig.ins.iter().map(|i| i.cap()).max().unwrap_or(4096);
    let ins: Vec<InSpec> = if built.name == "v2s" {
        let mut v = gen_inspecs(&built, rng, heavy_tags);
        // packets around the capacity of the output stream: exact fit, one more, never fits
        if rng.chance(1, 3) && !v[0].pkts.is_empty() {
            let at = rng.below(v[0].pkts.len());
            let big = out_cap - 2 + rng.below(5);
            v[0].pkts.insert(at, big);
            v[0].len += big;
        }
        v
    } else { built
        .alphabets
        .iter()
        .map(|(m, tbl)| {
            let len = match rng.below(6) {
                0 => rng.range(0, 5),
                1 => rng.range(0, 200),
                2 => in_cap + rng.range(0, 40),
                3 => rng.range(0, 3 * in_cap),
                _ => rng.range(0, 700),
            };
            let len = if built.name == "delay" && built.params[0] >= 1025 && len % 2 == 0 { 0 } else { len };
            let tags = if built.name == "s2pdu" {
                gen_burst_tags_for(rng, len, Some((built.params[1] as usize, built.params[2] as usize)))
            } else {
                gen_tags(rng, len, heavy_tags)
            };
            if built.name == "audec" {
                let data = au_input(rng, in_cap);
                let tags = gen_tags(rng, data.len(), heavy_tags);
                return InSpec { pkts: vec![], len: data.len(), seed: 0, m: *m, tbl: tbl.clone(), tags, fixed: Some(data) };
            }
            // a sink that stores tags: more tags than samples on the first samples
            let tags = if built.name == "vectorsink" && len > 0 {
                let mut t = tags;
                for k in 0..(20 + len % 30) {
                    t.push((k % 2.min(len), 1 + (k as u64 % 3), 500 + k as u64));
                }
                t.sort_by_key(|x| x.0);
                t
            } else {
                tags
            };
            InSpec { pkts: vec![], len, seed: rng.next() >> 8, m: *m, tbl: tbl.clone(), tags, fixed: None }
        })
        .collect() };
    let lens: Vec<usize> = ins.iter().map(|i| i.len).collect();
    let mut acts = gen_schedule(rng, nin, nout, &lens, out_cap, steps);
    if built.name == "delayctl" {
        // the delay is changed a few times while the stream runs (grown and shrunk)
        for _ in 0..rng.range(0, 4) {
            let at = rng.below(acts.len().min(steps + 8) + 1);
            let d = *rng.pick(&[0usize, 1, 2, 3, 5, 7, 40, 100, 1500]);
            acts.insert(at, Act::Poke(d));
        }
        // lowered and raised again before the drop the lowering asked for has been carried out
        if rng.chance(1, 2) {
            let at = rng.below(acts.len().min(steps + 8) + 1);
            let lo = *rng.pick(&[0usize, 1, 2, 3]);
            let hi = *rng.pick(&[5usize, 7, 40, 100]);
            acts.insert(at, Act::Poke(hi));
            acts.insert(at, Act::Poke(lo));
        }
        // the delay lowered by more than what is queued: the next calls have to drop ALL the input they see (no
        // further random draw: decided by the case's parameters)
        if built.params[0] >= 40 && ins[0].len >= 400 {
            let lo = (ins[0].len / 2) % 4;
            let prefix = [
                Act::Feed(0, 300), Act::Work, Act::Drain(0, 2000), Act::Work, Act::Drain(0, 2000), Act::Work, Act::Drain(0, 2000),
                Act::Poke(lo), Act::Feed(0, 5), Act::Work, Act::Work, Act::Feed(0, 3), Act::Work, Act::Drain(0, 2000),
            ];
            for (i, a) in prefix.iter().enumerate() {
                acts.insert(i, *a);
            }
        }
    }
    let req = request(&built.name, &built.params, &built.rig, &ins, &acts);
    let obs = run_case(built.rig, &ins, &acts);
    format!("{req}\t{obs}")
}

pub fn run(args: &[String]) -> Vec<String> {
    let seed = arg_usize(args, "--seed", 1) as u64;
    let cases = arg_usize(args, "--cases", 200);
    let steps = arg_usize(args, "--steps", 30);
    let heavy = arg_usize(args, "--tag-heavy", 0) != 0;
    let set = arg(args, "--set").unwrap_or("sync".into());
    let only_block = arg(args, "--block");
    let mut out = Vec::new();
    let names: Vec<&str> = match set.as_str() {
        "modelled" => SYNC_NAMES.iter().chain(ARITY_NAMES.iter()).chain(["skip", "delay", "resampler", "rtlsdr", "s2pdu", "totext", "audec", "zerocross", "zerocross_clk", "symsync", "symsync_clk", "v2s", "constsrc", "delayctl", "auenc", "fftstream_x", "nullsink", "vectorsink", "sigsrc_f", "sigsrc_c", "quaddemod", "fftfx", "cma"].iter()).copied().collect(),
        "sync" => SYNC_NAMES.to_vec(),
        "arity" => ARITY_NAMES.to_vec(),
        "hand" => HAND_NAMES.to_vec(),
        "dsp" => DSP_NAMES.to_vec(),
        // the blocks of the two documented receive chains (C20)
        "chain" => vec!["hilbert", "quaddemod", "fftfilter_f", "fftfilter", "addconst_f32", "symsync", "zerocross", "slicer", "nrzi", "descrambler", "hdlc", "resampler"],
        "every" => SYNC_NAMES.iter().chain(ARITY_NAMES.iter()).chain(HAND_NAMES.iter()).copied().collect(),
        _ => SYNC_NAMES.iter().chain(ARITY_NAMES.iter()).copied().collect(),
    };
    let mode = arg(args, "--mode").unwrap_or("model".into());
    if mode == "self" {
        NO_OVERFLOW.store(true, std::sync::atomic::Ordering::SeqCst);
        if arg_usize(args, "--probes", 0) != 0 {
            out.extend(probes());
        }
    }
    let mut rng = Rng::new(seed);
    // every stream a block creates for its outputs is one page
    rustradio::verif::set_stream_size(4096);
    if arg_usize(args, "--fit-probes", 0) != 0 {
        out.extend(fit_probes());
    }
    if arg_usize(args, "--eof-probes", 0) != 0 {
        out.extend(ctor_probes());
        let mut r = rng.fork();
        out.extend(eof_probes(&mut r));
        let mut r = rng.fork();
        out.extend(big_step_probes(&mut r));
        let mut r = rng.fork();
        out.extend(uneven_output_probes(&mut r));
        let mut r = rng.fork();
        out.extend(window_race_probes(&mut r));
    }
    for _ in 0..arg_usize(args, "--zc-ideal", 0) {
        let mut r = rng.fork();
        out.push(zc_ideal_check(&mut r));
    }
    if arg_usize(args, "--fftfx-probes", 0) != 0 {
        let mut r = rng.fork();
        out.extend(fftfx_probes(&mut r));
    }
    for i in 0..arg_usize(args, "--tight-probes", 0) {
        let mut r = rng.fork();
        let name = match &only_block {
            Some(b) => b.as_str(),
            None => TIGHT_NAMES[i % TIGHT_NAMES.len()],
        };
        out.extend(tight_selfcheck(name, &mut r));
    }
    for i in 0..cases {
        let mut r = rng.fork();
        let name = match &only_block {
            Some(b) => b.as_str(),
            None => names[i % names.len()],
        };
        if mode == "self" {
            FORCE_BIG.store(i < names.len() && only_block.is_none(), std::sync::atomic::Ordering::SeqCst);
            out.extend(selfcheck(name, &mut r, steps, heavy));
            FORCE_BIG.store(false, std::sync::atomic::Ordering::SeqCst);
        } else {
            out.push(case(name, &mut r, steps, heavy));
        }
    }
    out
}
