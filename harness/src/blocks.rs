//! Catalogue of real blocks for the drip-feed harness (C08, C09, C10, C12, C19).
use crate::common::*;
use crate::drip::*;
use rustradio::block::Block;
use rustradio::blocks::*;
use rustradio::stream::{ReadStream, Tag, TagValue, WriteStream};
use rustradio::Complex;
use crate::ring::Elem;

/// float bit patterns worth trying: 0, -0, ±1, small, large, inf, NaN payloads
pub const F32_TBL: [u64; 16] = [
    0x0000_0000, 0x8000_0000, 0x3f80_0000, 0xbf80_0000, 0x3f00_0000, 0xbe99_999a, 0x4120_0000, 0xc2c8_0000,
    0x7f7f_ffff, 0x0000_0001, 0x7f80_0000, 0xff80_0000, 0x7fc0_0000, 0x7fa0_0001, 0x3eaa_aaab, 0x4049_0fdb,
];

// ---------------------------------------------------------------- harness-defined derive blocks (C19)

macro_rules! arity_block {
    ($name:ident, [$($i:ident),+], [$($o:ident),+]) => {
        #[derive(rustradio::rustradio_macros::Block)]
        #[rustradio(new, sync)]
        pub struct $name {
            $(#[rustradio(in)] $i: ReadStream<u32>,)+
            $(#[rustradio(out)] $o: WriteStream<u32>,)+
        }
    };
}
arity_block!(Ar11, [a], [x]);
arity_block!(Ar12, [a], [x, y]);
arity_block!(Ar13, [a], [x, y, z]);
arity_block!(Ar21, [a, b], [x]);
arity_block!(Ar22, [a, b], [x, y]);
arity_block!(Ar23, [a, b], [x, y, z]);
arity_block!(Ar31, [a, b, c], [x]);
arity_block!(Ar32, [a, b, c], [x, y]);
arity_block!(Ar33, [a, b, c], [x, y, z]);
impl Ar11 { fn process_sync(&self, a: u32) -> u32 { a } }
impl Ar12 { fn process_sync(&self, a: u32) -> (u32, u32) { (a, a.wrapping_add(1)) } }
impl Ar13 { fn process_sync(&self, a: u32) -> (u32, u32, u32) { (a, a.wrapping_add(1), a.wrapping_add(2)) } }
impl Ar21 { fn process_sync(&self, a: u32, b: u32) -> u32 { a.wrapping_add(b) } }
impl Ar22 { fn process_sync(&self, a: u32, b: u32) -> (u32, u32) { let s = a.wrapping_add(b); (s, s.wrapping_add(1)) } }
impl Ar23 { fn process_sync(&self, a: u32, b: u32) -> (u32, u32, u32) { let s = a.wrapping_add(b); (s, s.wrapping_add(1), s.wrapping_add(2)) } }
impl Ar31 { fn process_sync(&self, a: u32, b: u32, c: u32) -> u32 { a.wrapping_add(b).wrapping_add(c) } }
impl Ar32 { fn process_sync(&self, a: u32, b: u32, c: u32) -> (u32, u32) { let s = a.wrapping_add(b).wrapping_add(c); (s, s.wrapping_add(1)) } }
impl Ar33 { fn process_sync(&self, a: u32, b: u32, c: u32) -> (u32, u32, u32) { let s = a.wrapping_add(b).wrapping_add(c); (s, s.wrapping_add(1), s.wrapping_add(2)) } }

/// `sync_tag` with two inputs, two outputs, a `default` field and an `into` field.
#[derive(rustradio::rustradio_macros::Block)]
#[rustradio(new, sync_tag)]
pub struct ArTag22 {
    #[rustradio(in)]
    a: ReadStream<u32>,
    #[rustradio(in)]
    b: ReadStream<u32>,
    #[rustradio(out)]
    x: WriteStream<u32>,
    #[rustradio(out)]
    y: WriteStream<u32>,
    #[rustradio(default)]
    cnt: u32,
    #[rustradio(into)]
    label: String,
}
impl ArTag22 {
    fn process_sync_tags<'a>(&mut self, a: u32, at: &'a [Tag], b: u32, bt: &'a [Tag]) -> (u32, u32, std::borrow::Cow<'a, [Tag]>) {
        let s = a.wrapping_add(b).wrapping_add(self.cnt);
        self.cnt = self.cnt.wrapping_add(1);
        let mut ts: Vec<Tag> = at.to_vec();
        for t in bt {
            let v = match t.val() {
                TagValue::U64(v) => *v + 1,
                _ => 0,
            };
            ts.push(Tag::new(0, t.key(), TagValue::U64(v)));
        }
        assert_eq!(self.label, "lbl");
        (s, s.wrapping_add(1), std::borrow::Cow::Owned(ts))
    }
}
#[derive(rustradio::rustradio_macros::Block)]
#[rustradio(new, sync_tag)]
pub struct ArTag11 {
    #[rustradio(in)]
    a: ReadStream<u32>,
    #[rustradio(out)]
    x: WriteStream<u32>,
    #[rustradio(default)]
    cnt: u32,
}
impl ArTag11 {
    fn process_sync_tags<'a>(&mut self, a: u32, at: &'a [Tag]) -> (u32, std::borrow::Cow<'a, [Tag]>) {
        let s = a.wrapping_add(self.cnt);
        self.cnt = self.cnt.wrapping_add(1);
        (s, std::borrow::Cow::Borrowed(at))
    }
}

// ---------------------------------------------------------------- catalogue

pub struct Built {
    pub name: String,
    pub params: Vec<u64>,
    pub rig: Rig,
    /// (modulus, table) per input
    pub alphabets: Vec<(u64, Vec<u64>)>,
}

type E<T> = ReadStream<T>;

fn rig1<TI: Elem, TO: Elem>(rng: &mut Rng, f: impl FnOnce(E<TI>) -> (Box<dyn Block>, E<TO>)) -> Rig {
    let (fi, r) = feeder::<TI>(rng.below(5000));
    let (b, o) = f(r);
    Rig { block: b, ins: vec![fi], outs: vec![drainer(o)] }
}
fn rig21<TA: Elem, TB: Elem, TO: Elem>(rng: &mut Rng, f: impl FnOnce(E<TA>, E<TB>) -> (Box<dyn Block>, E<TO>)) -> Rig {
    let (fa, ra) = feeder::<TA>(rng.below(5000));
    let (fb, rb) = feeder::<TB>(rng.below(5000));
    let (b, o) = f(ra, rb);
    Rig { block: b, ins: vec![fa, fb], outs: vec![drainer(o)] }
}
fn rig12<TI: Elem, TO: Elem>(rng: &mut Rng, f: impl FnOnce(E<TI>) -> (Box<dyn Block>, E<TO>, E<TO>)) -> Rig {
    let (fi, r) = feeder::<TI>(rng.below(5000));
    let (b, o1, o2) = f(r);
    Rig { block: b, ins: vec![fi], outs: vec![drainer(o1), drainer(o2)] }
}

fn f32_alpha() -> (u64, Vec<u64>) {
    (0, F32_TBL.to_vec())
}
fn bits_alpha(rng: &mut Rng) -> (u64, Vec<u64>) {
    // mostly clean bits; sometimes a byte stream with values > 1
    if rng.chance(1, 8) { (4, vec![]) } else { (2, vec![]) }
}

pub const SYNC_NAMES: &[&str] = &[
    "addconst_int", "addconst_f32", "mulconst_int", "mulconst_f32", "xorconst", "xor", "add_int", "add_f32", "tee",
    "slicer", "f2c", "mag2", "nrzi", "descrambler", "cac", "cactag", "bursttagger",
];
pub const ARITY_NAMES: &[&str] = &["arity", "aritytag"];

macro_rules! bx {
    ($e:expr) => {{
        let (b, o) = $e;
        (Box::new(b) as Box<dyn Block>, o)
    }};
}

pub fn build(name: &str, rng: &mut Rng) -> Built {
    let mut params: Vec<u64> = vec![];
    let alphabets: Vec<(u64, Vec<u64>)>;
    let rig = match name {
        "addconst_int" => {
            if rng.chance(1, 2) {
                let v = rng.below(40) as u64;
                params = vec![8, v];
                alphabets = vec![(if rng.chance(1, 6) { 256 } else { 200 }, vec![])];
                rig1::<u8, u8>(rng, |r| bx!(AddConst::new(r, v as u8)))
            } else {
                let v = rng.below(1000) as u64;
                params = vec![32, v];
                alphabets = vec![(1 << 31, vec![])];
                rig1::<u32, u32>(rng, |r| bx!(AddConst::new(r, v as u32)))
            }
        }
        "addconst_f32" => {
            let v = *rng.pick(&F32_TBL);
            params = vec![v];
            alphabets = vec![f32_alpha()];
            rig1::<f32, f32>(rng, |r| bx!(AddConst::new(r, f32::from_bits(v as u32))))
        }
        "mulconst_int" => {
            let v = rng.below(4) as u64;
            params = vec![32, v];
            alphabets = vec![(1 << 30, vec![])];
            rig1::<u32, u32>(rng, |r| bx!(MultiplyConst::new(r, v as u32)))
        }
        "mulconst_f32" => {
            let v = *rng.pick(&F32_TBL);
            params = vec![v];
            alphabets = vec![f32_alpha()];
            rig1::<f32, f32>(rng, |r| bx!(MultiplyConst::new(r, f32::from_bits(v as u32))))
        }
        "xorconst" => {
            let v = rng.below(256) as u64;
            params = vec![v];
            alphabets = vec![(256, vec![])];
            rig1::<u8, u8>(rng, |r| bx!(XorConst::new(r, v as u8)))
        }
        "xor" => {
            alphabets = vec![(256, vec![]), (256, vec![])];
            rig21::<u8, u8, u8>(rng, |a, b| bx!(Xor::new(a, b)))
        }
        "add_int" => {
            params = vec![32];
            alphabets = vec![(1 << 31, vec![]), (1 << 31, vec![])];
            rig21::<u32, u32, u32>(rng, |a, b| bx!(Add::new(a, b)))
        }
        "add_f32" => {
            alphabets = vec![f32_alpha(), f32_alpha()];
            rig21::<f32, f32, f32>(rng, |a, b| bx!(Add::new(a, b)))
        }
        "tee" => {
            alphabets = vec![(1 << 32, vec![])];
            rig12::<u32, u32>(rng, |r| {
                let (b, o1, o2) = Tee::new(r);
                (Box::new(b), o1, o2)
            })
        }
        "slicer" => {
            alphabets = vec![f32_alpha()];
            rig1::<f32, u8>(rng, |r| bx!(BinarySlicer::new(r)))
        }
        "f2c" => {
            alphabets = vec![f32_alpha(), f32_alpha()];
            rig21::<f32, f32, Complex>(rng, |a, b| bx!(FloatToComplex::new(a, b)))
        }
        "mag2" => {
            // complex = two packed f32 patterns: build a table of pairs
            let mut tbl = vec![];
            for _ in 0..16 {
                let re = *rng.pick(&F32_TBL);
                let im = *rng.pick(&F32_TBL);
                tbl.push(re | (im << 32));
            }
            alphabets = vec![(0, tbl)];
            rig1::<Complex, f32>(rng, |r| bx!(ComplexToMag2::new(r)))
        }
        "nrzi" => {
            alphabets = vec![if rng.chance(1, 4) { (256, vec![]) } else { (2, vec![]) }];
            rig1::<u8, u8>(rng, |r| bx!(NrziDecode::new(r)))
        }
        "descrambler" => {
            let (mask, seed, len) = if rng.chance(1, 2) {
                (0x21u64, 0u64, 16u64)
            } else {
                (rng.next() & 0xffff_ffff, rng.next() & 0xffff, rng.range(0, 63) as u64)
            };
            params = vec![mask, seed, len];
            alphabets = vec![bits_alpha(rng)];
            rig1::<u8, u8>(rng, |r| bx!(Descrambler::new(r, mask, seed, len as u8)))
        }
        "cac" | "cactag" => {
            let clen = rng.range(0, 16);
            let code: Vec<u8> = (0..clen).map(|_| rng.below(2) as u8).collect();
            let allowed = rng.range(0, 3) as u64;
            params = vec![allowed];
            params.extend(code.iter().map(|b| *b as u64));
            alphabets = vec![bits_alpha(rng)];
            if name == "cac" {
                rig1::<u8, u8>(rng, |r| bx!(CorrelateAccessCode::new(r, code, allowed as usize)))
            } else {
                rig1::<u8, u8>(rng, |r| bx!(CorrelateAccessCodeTag::new(r, code, "added", allowed as usize)))
            }
        }
        "bursttagger" => {
            let th = *rng.pick(&[0x3e80_0000u64, 0x0000_0000, 0x3f80_0000, 0x7fc0_0000]);
            params = vec![th];
            alphabets = vec![(1 << 32, vec![]), f32_alpha()];
            rig21::<u32, f32, u32>(rng, |a, b| bx!(BurstTagger::new(a, b, f32::from_bits(th as u32), "added")))
        }
        "arity" => {
            let nin = rng.range(1, 3);
            let nout = rng.range(1, 3);
            params = vec![nin as u64, nout as u64];
            alphabets = (0..nin).map(|_| (1u64 << 32, vec![])).collect();
            arity_rig(rng, nin, nout)
        }
        "aritytag" => {
            if rng.chance(1, 2) {
                params = vec![1, 1];
                alphabets = vec![(1 << 32, vec![])];
                rig1::<u32, u32>(rng, |r| bx!(ArTag11::new(r)))
            } else {
                params = vec![2, 2];
                alphabets = vec![(1 << 32, vec![]), (1 << 32, vec![])];
                let (fa, ra) = feeder::<u32>(rng.below(5000));
                let (fb, rb) = feeder::<u32>(rng.below(5000));
                let (b, x, y) = ArTag22::new(ra, rb, "lbl");
                Rig { block: Box::new(b), ins: vec![fa, fb], outs: vec![drainer(x), drainer(y)] }
            }
        }
        _ => panic!("unknown block {name}"),
    };
    Built { name: name.to_string(), params, rig, alphabets }
}

fn arity_rig(rng: &mut Rng, nin: usize, nout: usize) -> Rig {
    let mut fs: Vec<Box<dyn InPort>> = vec![];
    let mut rs: Vec<ReadStream<u32>> = vec![];
    for _ in 0..nin {
        let (f, r) = feeder::<u32>(rng.below(5000));
        fs.push(f);
        rs.push(r);
    }
    let mut it = rs.into_iter();
    let mut nx = || it.next().unwrap();
    let (block, outs): (Box<dyn Block>, Vec<ReadStream<u32>>) = match (nin, nout) {
        (1, 1) => { let (b, x) = Ar11::new(nx()); (Box::new(b), vec![x]) }
        (1, 2) => { let (b, x, y) = Ar12::new(nx()); (Box::new(b), vec![x, y]) }
        (1, 3) => { let (b, x, y, z) = Ar13::new(nx()); (Box::new(b), vec![x, y, z]) }
        (2, 1) => { let (b, x) = Ar21::new(nx(), nx()); (Box::new(b), vec![x]) }
        (2, 2) => { let (b, x, y) = Ar22::new(nx(), nx()); (Box::new(b), vec![x, y]) }
        (2, 3) => { let (b, x, y, z) = Ar23::new(nx(), nx()); (Box::new(b), vec![x, y, z]) }
        (3, 1) => { let (b, x) = Ar31::new(nx(), nx(), nx()); (Box::new(b), vec![x]) }
        (3, 2) => { let (b, x, y) = Ar32::new(nx(), nx(), nx()); (Box::new(b), vec![x, y]) }
        _ => { let (b, x, y, z) = Ar33::new(nx(), nx(), nx()); (Box::new(b), vec![x, y, z]) }
    };
    Rig { block, ins: fs, outs: outs.into_iter().map(|o| drainer(o) as Box<dyn OutPort>).collect() }
}

/// One drip-feed case of block `name`. Returns `request<TAB>observed`.
pub fn case(name: &str, rng: &mut Rng, steps: usize, heavy_tags: bool) -> String {
    let built = build(name, rng);
    let nin = built.rig.ins.len();
    let nout = built.rig.outs.len();
    let out_cap = built.rig.outs.iter().map(|o| o.cap()).min().unwrap_or(4096);
    let in_cap = built.rig.ins.iter().map(|i| i.cap()).max().unwrap_or(4096);
    let ins: Vec<InSpec> = built
        .alphabets
        .iter()
        .map(|(m, tbl)| {
            let len = match rng.below(6) {
                0 => rng.range(0, 5),
                1 => rng.range(0, 200),
                2 => in_cap + rng.range(0, 40),
                3 => rng.range(0, 3 * in_cap),
                _ => rng.range(0, 700),
            };
            InSpec { len, seed: rng.next() >> 8, m: *m, tbl: tbl.clone(), tags: gen_tags(rng, len, heavy_tags) }
        })
        .collect();
    let lens: Vec<usize> = ins.iter().map(|i| i.len).collect();
    let acts = gen_schedule(rng, nin, nout, &lens, out_cap, steps);
    let req = request(&built.name, &built.params, &built.rig, &ins, &acts);
    let obs = run_case(built.rig, &ins, &acts);
    format!("{req}\t{obs}")
}

pub fn run(args: &[String]) -> Vec<String> {
    let seed = arg_usize(args, "--seed", 1) as u64;
    let cases = arg_usize(args, "--cases", 200);
    let steps = arg_usize(args, "--steps", 30);
    let heavy = arg_usize(args, "--tag-heavy", 0) != 0;
    let set = arg(args, "--set").unwrap_or("sync".into());
    let only_block = arg(args, "--block");
    let names: Vec<&str> = match set.as_str() {
        "sync" => SYNC_NAMES.to_vec(),
        "arity" => ARITY_NAMES.to_vec(),
        _ => SYNC_NAMES.iter().chain(ARITY_NAMES.iter()).copied().collect(),
    };
    let mut rng = Rng::new(seed);
    let mut out = Vec::new();
    // every stream a block creates for its outputs is one page
    rustradio::verif::set_stream_size(4096);
    for i in 0..cases {
        let mut r = rng.fork();
        let name = match &only_block {
            Some(b) => b.as_str(),
            None => names[i % names.len()],
        };
        out.push(case(name, &mut r, steps, heavy));
    }
    out
}
