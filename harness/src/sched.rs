//! C06/C07 (and the loop part of C05): the two runners driven by scripted blocks.
//!
//! `sched st|mt <cancelAt or -> | script | script …` lines are answered by the
//! Lean runner models; `!…` lines are self-checking.
use crate::common::*;
use rustradio::Result;
use rustradio::block::{Block, BlockEOF, BlockName, BlockRet};
use rustradio::graph::{CancellationToken, Graph, GraphRunner};
use rustradio::mtgraph::MTGraph;
use rustradio::stream::StreamWait;
use std::sync::atomic::{AtomicUsize, Ordering};
use std::sync::{Arc, Mutex};

#[derive(Clone, Copy, Debug)]
pub enum V {
    Again,
    Pending,
    Func,
    Stream { closed: bool, never: bool },
    Eof,
    Err,
}

#[derive(Clone, Copy, Debug)]
pub struct Call {
    v: V,
    eof_after: bool,
    /// the call moves one sample through a private stream (stream activity)
    moved: bool,
}

struct Fake {
    closed: bool,
    never: bool,
    /// the amount named in the verdict; the runner must pass exactly it to `wait()`
    expected: usize,
    shared: Arc<Shared>,
}
impl StreamWait for Fake {
    fn wait(&self, need: usize) -> bool {
        if need != self.expected {
            self.shared.wrong_need.fetch_add(1, Ordering::SeqCst);
        }
        self.never
    }
    fn closed(&self) -> bool {
        self.closed
    }
}

pub struct Shared {
    /// global sequence of (block, token already set when the call began)
    log: Mutex<Vec<(usize, bool)>>,
    calls: AtomicUsize,
    dropped: AtomicUsize,
    /// `wait(need)` calls whose amount differs from the verdict's
    wrong_need: AtomicUsize,
}

pub struct Scripted {
    idx: usize,
    name: String,
    script: Vec<Call>,
    /// after the script: repeat `Again` forever (an infinite source) instead of EOF
    forever: bool,
    pos: usize,
    last_eof: bool,
    fake: Fake,
    shared: Arc<Shared>,
    token: CancellationToken,
    /// cancel the token during the global call number (1-based) / own call number
    cancel_global: Option<usize>,
    cancel_own: Option<usize>,
    private: (rustradio::stream::WriteStream<u8>, rustradio::stream::ReadStream<u8>),
    private2: (rustradio::stream::WriteStream<u8>, rustradio::stream::ReadStream<u8>),
    private_nc: (rustradio::stream::NCWriteStream<Vec<u8>>, rustradio::stream::NCReadStream<Vec<u8>>),
}

impl BlockName for Scripted {
    fn block_name(&self) -> &str {
        &self.name
    }
}
impl BlockEOF for Scripted {
    fn eof(&mut self) -> bool {
        self.last_eof
    }
}
impl Drop for Scripted {
    fn drop(&mut self) {
        self.shared.dropped.fetch_add(1, Ordering::SeqCst);
    }
}
impl Block for Scripted {
    fn work(&mut self) -> Result<BlockRet> {
        let was_set = self.token.is_canceled();
        self.shared.log.lock().unwrap().push((self.idx, was_set));
        let g = self.shared.calls.fetch_add(1, Ordering::SeqCst) + 1;
        if self.cancel_global == Some(g) || self.cancel_own == Some(self.pos + 1) {
            self.token.cancel();
        }
        let c = if self.pos < self.script.len() {
            self.script[self.pos]
        } else if self.forever {
            Call { v: V::Again, eof_after: false, moved: false }
        } else {
            Call { v: V::Eof, eof_after: true, moved: false }
        };
        self.pos += 1;
        self.last_eof = c.eof_after;
        if c.moved {
            // stream activity of one kind only, on streams that are neither empty nor full before
            // and after: a commit into a non-empty stream, or a consume that leaves samples behind
            if self.pos % 3 == 0 {
                let mut wb = self.private.0.write_buf()?;
                wb.slice()[0] = 1;
                wb.produce(1, &[]);
            } else if self.pos % 3 == 2 {
                // a packet pushed on a no-copy stream is stream activity too
                self.private_nc.0.push(vec![self.pos as u8], &[]);
            } else {
                let (rb, _) = self.private2.1.read_buf()?;
                rb.consume(1);
            }
        }
        Ok(match c.v {
            V::Again => BlockRet::Again,
            V::Pending => BlockRet::Pending,
            V::Func => BlockRet::WaitForFunc(Box::new(|| {})),
            V::Stream { closed, never } => {
                self.fake.closed = closed;
                self.fake.never = never;
                self.fake.expected = 2 + self.pos % 5;
                BlockRet::WaitForStream(&self.fake, 2 + self.pos % 5)
            }
            V::Eof => BlockRet::EOF,
            V::Err => return Err(rustradio::Error::msg(format!("scripted failure in block {}", self.idx))),
        })
    }
}

fn show_call(c: &Call) -> String {
    let m = if c.moved { "m" } else { "" };
    let s = show_call0(c);
    format!("{s}{m}")
}

fn show_call0(c: &Call) -> String {
    match c.v {
        V::Again => "A".into(),
        V::Pending => "P".into(),
        V::Func => format!("F{}", c.eof_after as u8),
        V::Stream { closed, never } => format!("W{}{}{}", closed as u8, never as u8, c.eof_after as u8),
        V::Eof => "E".into(),
        V::Err => "X".into(),
    }
}

fn gen_script(rng: &mut Rng, max_len: usize, allow_err: bool) -> Vec<Call> {
    let n = rng.range(0, max_len);
    let mut s = Vec::new();
    for _ in 0..n {
        let v = match rng.below(12) {
            0..=3 => V::Again,
            4 => V::Pending,
            5 => V::Func,
            6..=8 => V::Stream { closed: rng.chance(1, 5), never: rng.chance(1, 5) },
            9 => V::Eof,
            10 if allow_err => V::Err,
            _ => V::Again,
        };
        // `b.eof()` may also be true while the block still answers Again / Pending (its inputs have ended and are
        // drained but it still owes output: Delay's zeros, AuEncode's header): both runners consult it only after a
        // wait verdict, so there it must make no difference (the request does not even carry the flag)
        let eof_after = if matches!(v, V::Func | V::Stream { .. }) { rng.chance(1, 6) } else { rng.chance(1, 8) };
        s.push(Call { v, eof_after, moved: rng.chance(1, 3) });
    }
    s
}

struct Built {
    shared: Arc<Shared>,
    blocks: Vec<Scripted>,
}

fn build(scripts: &[Vec<Call>], forever: &[bool], token: &CancellationToken, cancel_global: Option<usize>, cancel_own: &[Option<usize>]) -> Built {
    let shared = Arc::new(Shared {
        log: Mutex::new(Vec::new()),
        calls: AtomicUsize::new(0),
        dropped: AtomicUsize::new(0),
        wrong_need: AtomicUsize::new(0),
    });
    let blocks = scripts
        .iter()
        .enumerate()
        .map(|(i, s)| Scripted {
            idx: i,
            name: format!("scripted{i}"),
            script: s.clone(),
            forever: forever.get(i).copied().unwrap_or(false),
            pos: 0,
            last_eof: false,
            fake: Fake { closed: false, never: false, expected: 0, shared: shared.clone() },
            shared: shared.clone(),
            token: token.clone(),
            cancel_global,
            cancel_own: cancel_own.get(i).copied().flatten(),
            private: {
                // never empty: one sample stays in it
                rustradio::verif::set_stream_size(4096);
                let p = rustradio::stream::new_stream::<u8>();
                rustradio::verif::set_stream_size(0);
                {
                    let mut wb = p.0.write_buf().unwrap();
                    wb.slice()[0] = 1;
                    wb.produce(1, &[]);
                }
                p
            },
            private_nc: rustradio::stream::new_nocopy_stream::<Vec<u8>>(),
            private2: {
                // pre-filled: consume-only moves never drain it
                rustradio::verif::set_stream_size(4096);
                let p = rustradio::stream::new_stream::<u8>();
                rustradio::verif::set_stream_size(0);
                {
                    let mut wb = p.0.write_buf().unwrap();
                    let n = wb.len().min(2000);
                    wb.produce(n, &[]);
                }
                p
            },
        })
        .collect();
    Built { shared, blocks }
}

fn req_of(kind: &str, cancel: Option<usize>, scripts: &[Vec<Call>]) -> String {
    let mut r = format!("sched {kind} {}", cancel.map(|c| c.to_string()).unwrap_or("-".into()));
    for s in scripts {
        r += " |";
        for c in s {
            r += " ";
            r += &show_call(c);
        }
    }
    r
}

fn result_str(res: &std::result::Result<Result<()>, String>) -> String {
    match res {
        Ok(Ok(())) => "ok".into(),
        Ok(Err(e)) => {
            let s = format!("{e}");
            match s.rsplit("block ").next().and_then(|t| t.trim().parse::<usize>().ok()) {
                Some(n) => format!("err {n}"),
                None => format!("err ? {s}"),
            }
        }
        Err(p) => format!("panic {}", p.replace(['\t', '\n'], " ")),
    }
}

fn st_case(rng: &mut Rng, max_blocks: usize, max_len: usize) -> String {
    let nb = rng.range(1, max_blocks);
    let allow_err = rng.chance(1, 3);
    let scripts: Vec<Vec<Call>> = (0..nb).map(|_| gen_script(rng, max_len, allow_err)).collect();
    let total: usize = scripts.iter().map(|s| s.len()).sum();
    let cancel = if rng.chance(1, 3) { Some(rng.range(0, total + 1)) } else { None };
    let mut g = Graph::new();
    let token = g.cancel_token();
    if cancel == Some(0) {
        token.cancel();
    }
    let built = build(&scripts, &[], &token, cancel.filter(|c| *c > 0), &[]);
    let shared = built.shared.clone();
    for b in built.blocks {
        g.add(Box::new(b));
    }
    let _wd = deadline(60, format!("Graph::run {}", req_of("st", cancel, &scripts)));
    let res = quiet(|| g.run());
    drop(_wd);
    let log: Vec<String> = shared.log.lock().unwrap().iter().map(|(b, _)| b.to_string()).collect();
    format!("{}\t{} log={}", req_of("st", cancel, &scripts), result_str(&res), log.join(","))
}

fn mt_case(rng: &mut Rng, max_blocks: usize, max_len: usize) -> String {
    let nb = rng.range(1, max_blocks);
    let mut scripts: Vec<Vec<Call>> = (0..nb).map(|_| gen_script(rng, max_len, false)).collect();
    // at most one failing block per compared case (with several, which error wins is a race)
    let failing = if rng.chance(1, 3) { Some(rng.below(nb)) } else { None };
    if let Some(f) = failing {
        let at = rng.range(0, scripts[f].len());
        scripts[f].truncate(at);
        scripts[f].push(Call { v: V::Err, eof_after: false, moved: false });
    }
    debug_trace(&req_of("mt", None, &scripts));
    let mut g = MTGraph::new();
    let token = g.cancel_token();
    let built = build(&scripts, &[], &token, None, &[]);
    let shared = built.shared.clone();
    for b in built.blocks {
        g.add(Box::new(b));
    }
    let _wd = deadline(60, format!("MTGraph::run {}", req_of("mt", None, &scripts)));
    let res = quiet(|| g.run());
    drop(_wd);
    let mut counts = vec![0usize; nb];
    for (b, _) in shared.log.lock().unwrap().iter() {
        counts[*b] += 1;
    }
    let dropped = shared.dropped.load(Ordering::SeqCst);
    let counts: Vec<String> = counts
        .iter()
        .enumerate()
        .map(|(i, c)| if matches!(res, Ok(Err(_))) && failing != Some(i) { "*".to_string() } else { c.to_string() })
        .collect();
    let wrong = shared.wrong_need.load(Ordering::SeqCst);
    format!(
        "{}\t{} calls={} finished={}{}",
        req_of("mt", None, &scripts),
        result_str(&res),
        counts.join(","),
        dropped == nb,
        if wrong > 0 { format!(" WRONG-NEED: {wrong} wait(need) calls with an amount other than the verdict's") } else { String::new() }
    )
}

/// Cancellation from another thread at an arbitrary moment, infinite sources included.
fn cancel_case(rng: &mut Rng, mt: bool, idx: usize) -> String {
    let nb = rng.range(1, 4);
    let scripts: Vec<Vec<Call>> = (0..nb)
        .map(|_| {
            (0..rng.range(0, 6))
                .map(|_| Call {
                    v: *rng.pick(&[V::Again, V::Again, V::Pending, V::Stream { closed: false, never: false }, V::Func]),
                    eof_after: false,
                    moved: rng.chance(1, 3),
                })
                .collect()
        })
        .collect();
    let forever: Vec<bool> = (0..nb).map(|i| i == 0 || rng.chance(1, 2)).collect();
    let delay_us = rng.range(0, 3000) as u64;
    let own = if rng.chance(1, 2) { Some(rng.range(1, 50)) } else { None };
    let _wd = deadline(60, format!("cancel {} #{idx} blocks={nb} delay_us={delay_us} own={own:?}: run() after cancel()", if mt { "mt" } else { "st" }));
    let (res, log, dropped) = if mt {
        let mut g = MTGraph::new();
        let token = g.cancel_token();
        let built = build(&scripts, &forever, &token, None, &[own]);
        let shared = built.shared.clone();
        for b in built.blocks {
            g.add(Box::new(b));
        }
        let t2 = token.clone();
        let th = std::thread::spawn(move || {
            std::thread::sleep(std::time::Duration::from_micros(delay_us));
            t2.cancel();
        });
        let res = quiet(|| g.run());
        th.join().unwrap();
        (res, shared.log.lock().unwrap().clone(), shared.dropped.load(Ordering::SeqCst))
    } else {
        let mut g = Graph::new();
        let token = g.cancel_token();
        let built = build(&scripts, &forever, &token, None, &[own]);
        let shared = built.shared.clone();
        for b in built.blocks {
            g.add(Box::new(b));
        }
        let t2 = token.clone();
        let th = std::thread::spawn(move || {
            std::thread::sleep(std::time::Duration::from_micros(delay_us));
            t2.cancel();
        });
        let res = quiet(|| g.run());
        th.join().unwrap();
        drop(g);
        (res, shared.log.lock().unwrap().clone(), shared.dropped.load(Ordering::SeqCst))
    };
    let mut late = vec![0usize; nb];
    for (b, set) in &log {
        if *set {
            late[*b] += 1;
        }
    }
    let ok = matches!(res, Ok(Ok(()))) && late.iter().all(|c| *c <= 1) && dropped == nb;
    format!(
        "!cancel {} #{idx} blocks={nb} delay_us={delay_us} own={own:?}\t{}",
        if mt { "mt" } else { "st" },
        if ok { "pass".to_string() } else { format!("FAIL result={} calls-begun-after-cancel={late:?} dropped={dropped}/{nb}", result_str(&res)) }
    )
}

/// Several failing blocks on the multithreaded runner: the result must be one of their errors.
fn mt_multi_err(rng: &mut Rng, idx: usize) -> String {
    let nb = rng.range(2, 5);
    let mut scripts: Vec<Vec<Call>> = (0..nb).map(|_| gen_script(rng, 6, false)).collect();
    let mut failing = Vec::new();
    for (i, s) in scripts.iter_mut().enumerate() {
        if rng.chance(1, 2) || i == 0 {
            let at = rng.range(0, s.len());
            s.truncate(at);
            // nothing before the failure may retire the block
            for c in s.iter_mut() {
                c.eof_after = false;
                match c.v {
                    V::Eof => c.v = V::Again,
                    V::Stream { .. } => c.v = V::Stream { closed: false, never: false },
                    _ => {}
                }
            }
            s.push(Call { v: V::Err, eof_after: false, moved: false });
            failing.push(i);
        }
    }
    let forever: Vec<bool> = (0..nb).map(|i| !failing.contains(&i) && rng.chance(1, 2)).collect();
    debug_trace(&format!("mterr {} forever={forever:?}", req_of("mt", None, &scripts)));
    let mut g = MTGraph::new();
    let token = g.cancel_token();
    let built = build(&scripts, &forever, &token, None, &[]);
    let shared = built.shared.clone();
    for b in built.blocks {
        g.add(Box::new(b));
    }
    let _wd = deadline(60, format!("mterr #{idx} {} failing={failing:?} forever={forever:?}: MTGraph::run with a failing block", req_of("mt", None, &scripts)));
    let res = quiet(|| g.run());
    drop(_wd);
    let r = result_str(&res);
    let ok = failing.iter().any(|f| r == format!("err {f}")) && shared.dropped.load(Ordering::SeqCst) == nb;
    format!(
        "!mterr #{idx} {} failing={failing:?} forever={forever:?}\t{}",
        req_of("mt", None, &scripts),
        if ok { "pass".to_string() } else { format!("FAIL result={r}") }
    )
}

/// A sink on a real stream that is slower than its source, and may fail.
struct SlowSink {
    src: rustradio::stream::ReadStream<u8>,
    calls: usize,
    fail_at: Option<usize>,
}
impl BlockName for SlowSink {
    fn block_name(&self) -> &str {
        "SlowSink"
    }
}
impl BlockEOF for SlowSink {
    fn eof(&mut self) -> bool {
        self.src.eof()
    }
}
impl Block for SlowSink {
    fn work(&mut self) -> Result<BlockRet> {
        self.calls += 1;
        if Some(self.calls) == self.fail_at {
            return Err(rustradio::Error::msg("scripted failure in block 1"));
        }
        let (rb, _) = self.src.read_buf()?;
        if rb.is_empty() {
            return Ok(BlockRet::WaitForStream(&self.src, 1));
        }
        let n = rb.len().min(100);
        rb.consume(n);
        std::thread::sleep(std::time::Duration::from_millis(1));
        Ok(BlockRet::Again)
    }
}

/// Real streams: an infinite source blocked on a full output stream must still see a
/// cancellation / the failure of its consumer, and `run()` must return.
fn real_stream_case(idx: usize, mt: bool, fail: bool) -> String {
    rustradio::verif::set_stream_size(4096);
    let (src, o) = rustradio::blocks::ConstantSource::new(7u8);
    rustradio::verif::set_stream_size(0);
    let sink = SlowSink { src: o, calls: 0, fail_at: if fail { Some(10) } else { None } };
    let label = format!("real-streams #{idx} {} {}: ConstantSource -> slow sink", if mt { "mt" } else { "st" }, if fail { "sink fails on call 10" } else { "cancel after 30 ms" });
    let _wd = deadline(30, format!("{label}: run()"));
    let res = if mt {
        let mut g = MTGraph::new();
        let token = g.cancel_token();
        g.add(Box::new(src));
        g.add(Box::new(sink));
        let th = (!fail).then(|| {
            std::thread::spawn(move || {
                std::thread::sleep(std::time::Duration::from_millis(30));
                token.cancel();
            })
        });
        let r = quiet(|| g.run());
        if let Some(th) = th {
            th.join().unwrap();
        }
        r
    } else {
        let mut g = Graph::new();
        let token = g.cancel_token();
        g.add(Box::new(src));
        g.add(Box::new(sink));
        let th = (!fail).then(|| {
            std::thread::spawn(move || {
                std::thread::sleep(std::time::Duration::from_millis(30));
                token.cancel();
            })
        });
        let r = quiet(|| g.run());
        if let Some(th) = th {
            th.join().unwrap();
        }
        r
    };
    let r = result_str(&res);
    let ok = if fail { r == "err 1" } else { r == "ok" };
    format!("!{label}\t{}", if ok { "pass".to_string() } else { format!("FAIL result={r}") })
}

/// A block whose failing call is also the call during which the graph is cancelled: the failure
/// must still be reported.
fn err_with_cancel(rng: &mut Rng, idx: usize, mt: bool) -> String {
    let nb = rng.range(1, 3);
    let mut scripts: Vec<Vec<Call>> = (0..nb)
        .map(|_| (0..rng.range(0, 4)).map(|_| Call { v: V::Again, eof_after: false, moved: false }).collect())
        .collect();
    let f = rng.below(nb);
    let at = scripts[f].len();
    scripts[f].push(Call { v: V::Err, eof_after: false, moved: false });
    let forever: Vec<bool> = (0..nb).map(|i| i != f).collect();
    let own: Vec<Option<usize>> = (0..nb).map(|i| if i == f { Some(at + 1) } else { None }).collect();
    let label = format!("err-with-cancel #{idx} {} blocks={nb} failing={f} at call {}", if mt { "mt" } else { "st" }, at + 1);
    let _wd = deadline(60, format!("{label}: run()"));
    let res = if mt {
        let mut g = MTGraph::new();
        let token = g.cancel_token();
        let built = build(&scripts, &forever, &token, None, &own);
        for b in built.blocks {
            g.add(Box::new(b));
        }
        quiet(|| g.run())
    } else {
        let mut g = Graph::new();
        let token = g.cancel_token();
        let built = build(&scripts, &forever, &token, None, &own);
        for b in built.blocks {
            g.add(Box::new(b));
        }
        quiet(|| g.run())
    };
    let r = result_str(&res);
    format!("!{label}\t{}", if r == format!("err {f}") { "pass".to_string() } else { format!("FAIL result={r}") })
}

pub fn run(args: &[String]) -> Vec<String> {
    let seed = arg_usize(args, "--seed", 1) as u64;
    let cases = arg_usize(args, "--cases", 500);
    let mt_cases = arg_usize(args, "--mt-cases", 150);
    let cancels = arg_usize(args, "--cancels", 40);
    let what = arg(args, "--what").unwrap_or("all".into());
    let mut rng = Rng::new(seed);
    let mut out = Vec::new();
    if what == "all" || what == "st" {
        for _ in 0..cases {
            let mut r = rng.fork();
            out.push(st_case(&mut r, 5, 8));
        }
    }
    if what == "all" || what == "mt" {
        for _ in 0..mt_cases {
            let mut r = rng.fork();
            out.push(mt_case(&mut r, 5, 8));
        }
        for i in 0..mt_cases / 3 {
            let mut r = rng.fork();
            out.push(mt_multi_err(&mut r, i));
        }
    }
    if what == "all" || what == "cancel" {
        for i in 0..cancels {
            let mut r = rng.fork();
            out.push(cancel_case(&mut r, i % 2 == 0, i));
        }
        for i in 0..(cancels / 4).max(2) {
            let mut r = rng.fork();
            out.push(err_with_cancel(&mut r, i, i % 2 == 0));
        }
        for i in 0..4 {
            out.push(real_stream_case(i, i % 2 == 0, i / 2 == 1));
        }
    }
    out
}

#[allow(dead_code)]
pub fn debug_trace(s: &str) {
    if std::env::var("RRH_DEBUG").is_ok() {
        eprintln!("{s}");
    }
}
