//! C13: HDLC deframer. Frames are built by an encoder written here (flags,
//! LSB-first bytes, CRC-16/X.25 computed bit-serially, bit stuffing), fed to the
//! real `HdlcDeframer` in random chunks, and the packets are compared with the
//! Lean model (`hdlc …` lines) and with what was framed (`!hdlc …` lines).
use crate::common::*;
use crate::drip::*;
use rustradio::block::Block;
use rustradio::blocks::HdlcDeframer;

/// CRC-16/X.25, bit-serial (reflected polynomial 0x8408, init and xor-out 0xffff).
pub fn crc16(data: &[u8]) -> u16 {
    let mut crc: u16 = 0xffff;
    for b in data {
        crc ^= *b as u16;
        for _ in 0..8 {
            crc = if crc & 1 != 0 { (crc >> 1) ^ 0x8408 } else { crc >> 1 };
        }
    }
    crc ^ 0xffff
}

pub const FLAG: [u8; 8] = [0, 1, 1, 1, 1, 1, 1, 0];

pub fn bits_lsb(bytes: &[u8]) -> Vec<u8> {
    bytes.iter().flat_map(|b| (0..8).map(move |i| (b >> i) & 1)).collect()
}

pub fn stuff(bits: &[u8]) -> Vec<u8> {
    let mut out = vec![];
    let mut ones = 0;
    for b in bits {
        out.push(*b);
        if *b == 1 {
            ones += 1;
            if ones == 5 {
                out.push(0);
                ones = 0;
            }
        } else {
            ones = 0;
        }
    }
    out
}

/// Body of a frame (no flags): stuffed bits of payload ++ crc.
pub fn body(payload: &[u8], with_crc: bool) -> Vec<u8> {
    let mut bytes = payload.to_vec();
    if with_crc {
        bytes.extend(crc16(payload).to_le_bytes());
    }
    stuff(&bits_lsb(&bytes))
}

fn payload(rng: &mut Rng, len: usize) -> Vec<u8> {
    match rng.below(4) {
        0 => (0..len).map(|_| *rng.pick(&[0xffu8, 0x7e, 0x3f, 0x7f, 0xfe, 0x1f])).collect(),
        1 => vec![0xff; len],
        _ => (0..len).map(|_| rng.below(256) as u8).collect(),
    }
}

fn noise(rng: &mut Rng) -> Vec<u8> {
    match rng.below(6) {
        0 => vec![],
        1 => vec![0, 1, 1, 1, 1, 1, 1],          // "0111111": half a flag
        2 => vec![0, 1, 1, 1, 1, 1],
        3 => vec![1; 9],
        4 => {
            // a flag and then garbage: leaves the deframer mid-frame
            let mut v = FLAG.to_vec();
            v.extend((0..rng.range(0, 40)).map(|_| rng.below(2) as u8));
            v
        }
        _ => (0..rng.range(0, 60)).map(|_| rng.below(2) as u8).collect(),
    }
}

struct Cfg {
    min: usize,
    max: usize,
    strip: bool,
    fix: bool,
}

/// Run the real deframer over `bits` in random chunks; returns the packets.
fn deframe(cfg: &Cfg, bits: &[u8], rng: &mut Rng) -> Result<Vec<Vec<u8>>, String> {
    let (mut fi, r) = feeder::<u8>(rng.below(5000));
    let (mut b, o) = HdlcDeframer::new(r, cfg.min, cfg.max);
    b.set_checksum(cfg.strip);
    b.set_fix_bits(cfg.fix);
    let mut out = vec![];
    let mut pos = 0;
    let style = rng.below(3);
    let res = quiet(|| {
        while pos < bits.len() {
            let k = match style {
                0 => 1,
                1 => rng.range(1, 9),
                _ => rng.range(1, 3000),
            }
            .min(bits.len() - pos)
            .min(fi.free());
            let vals: Vec<u64> = bits[pos..pos + k].iter().map(|b| *b as u64).collect();
            fi.push(&vals, &[]);
            pos += k;
            for _ in 0..3 {
                let _ = b.work();
            }
            while let Some((p, _)) = o.pop() {
                out.push(p);
            }
        }
    });
    match res {
        Ok(()) => Ok(out),
        Err(p) => Err(format!("panic: {p}")),
    }
}

fn show_packets(ps: &[Vec<u8>]) -> String {
    ps.iter()
        .map(|p| format!("{}:{}", p.len(), p.iter().map(|b| b.to_string()).collect::<Vec<_>>().join(",")))
        .collect::<Vec<_>>()
        .join(" ")
}

fn bitstr(bits: &[u8]) -> String {
    bits.iter().map(|b| char::from(b'0' + (*b).min(9))).collect()
}

/// Black-box constants of the compiled deframer, for the translator (`tools/extract.py`) when the source text
/// does not spell them as literals: the octet it synchronises on, and the frame check sequence it accepts
/// for three payloads (the translator solves the CRC's initial value and final xor from them and the table).
fn probe_consts() -> Vec<String> {
    let mut out = vec![];
    // the flag: with checksum checking off, a frame delimited by octet `c` is delivered iff `c` is the flag
    let filler = vec![0x55u8; 12];
    let mut flags = vec![];
    for c in 0..=255u8 {
        let (mut fi, r) = feeder::<u8>(0);
        let (mut b, o) = HdlcDeframer::new(r, 2, 100);
        b.set_checksum(false);
        let mut bits = bits_lsb(&[c]);
        bits.extend(bits_lsb(&filler));
        bits.extend(bits_lsb(&[c]));
        bits.extend([0u8; 8]);
        let vals: Vec<u64> = bits.iter().map(|x| *x as u64).collect();
        fi.push(&vals, &[]);
        let _ = quiet(|| {
            for _ in 0..4 {
                let _ = b.work();
            }
        });
        let mut got = vec![];
        while let Some((p, _)) = o.pop() {
            got.push(p);
        }
        if got.len() == 1 && got[0] == filler {
            flags.push(c);
        }
    }
    if flags.len() == 1 {
        out.push(format!("# probe flag {}", flags[0]));
    }
    // accepted check sequences: one deframer, candidate after candidate
    let flag_bits = if flags.len() == 1 { bits_lsb(&[flags[0]]) } else { FLAG.to_vec() };
    // different lengths: the initial value's contribution must not cancel between them
    let payloads: [Vec<u8>; 5] = [vec![0u8; 6], (1..=8u8).collect(), vec![0xa5u8; 11], vec![0x3cu8; 7], (10..=22u8).collect()];
    let mut items = vec![];
    for p in &payloads {
        let (mut fi, r) = feeder::<u8>(0);
        let (mut b, o) = HdlcDeframer::new(r, 4, 100);
        let mut accepted = vec![];
        for f in 0..=0xffffu32 {
            let mut bytes = p.clone();
            bytes.extend((f as u16).to_le_bytes());
            let mut bits = flag_bits.clone();
            bits.extend(stuff(&bits_lsb(&bytes)));
            bits.extend(flag_bits.clone());
            let vals: Vec<u64> = bits.iter().map(|x| *x as u64).collect();
            fi.push(&vals, &[]);
            let _ = quiet(|| {
                for _ in 0..3 {
                    let _ = b.work();
                }
            });
            while let Some((q, _)) = o.pop() {
                if q == *p {
                    accepted.push(f);
                }
            }
        }
        if accepted.len() == 1 {
            items.push(format!("{}={}", p.iter().map(|x| x.to_string()).collect::<Vec<_>>().join(","), accepted[0]));
        }
    }
    if items.len() == 5 {
        out.push(format!("# probe fcs {}", items.join(";")));
    }
    out
}

/// A whole transmission in ONE read window of a default-size stream (more bits than any per-call limit): every
/// frame must come out, as when the same bits arrive in small pieces.
fn big_window(rng: &mut Rng) -> String {
    let nframes = rng.range(600, 900);
    let mut bits: Vec<u8> = FLAG.to_vec();
    let mut want: Vec<Vec<u8>> = vec![];
    for _ in 0..nframes {
        let plen = rng.range(8, 16);
        let p = payload(rng, plen);
        bits.extend(body(&p, true));
        bits.extend(FLAG);
        want.push(p);
    }
    rustradio::verif::set_stream_size(0);
    let (w, r) = rustradio::stream::new_stream::<u8>();
    rustradio::verif::set_stream_size(4096);
    let (mut b, o) = HdlcDeframer::new(r, 4, 100);
    let res = quiet(|| {
        {
            let mut wb = w.write_buf().unwrap();
            for (i, x) in bits.iter().enumerate() {
                wb.slice()[i] = *x;
            }
            wb.produce(bits.len(), &[]);
        }
        for _ in 0..6 {
            let _ = b.work();
        }
    });
    let mut got = vec![];
    while let Some((p, _)) = o.pop() {
        got.push(p);
    }
    let v = match res {
        Err(p) => format!("FAIL panic: {p}"),
        Ok(()) if got == want => "pass".to_string(),
        Ok(()) => format!("FAIL {} of {} frames delivered from one window of {} bits", got.len(), want.len(), bits.len()),
    };
    format!("!hdlc big-window frames={nframes} bits={}\t{v}\t{}", bits.len(), if v == "pass" { "" } else { "big-window" })
}

pub fn run(args: &[String]) -> Vec<String> {
    let seed = arg_usize(args, "--seed", 1) as u64;
    let cases = arg_usize(args, "--cases", 300);
    rustradio::verif::set_stream_size(4096);
    if arg_usize(args, "--probe-consts", 0) != 0 {
        return probe_consts();
    }
    let mut rng = Rng::new(seed);
    let mut out = Vec::new();
    out.push(big_window(&mut rng.fork()));
    for i in 0..cases {
        let mut r = rng.fork();
        let max = *r.pick(&[4usize, 10, 10, 20, 50, 300]);
        let min = *r.pick(&[0usize, 1, 2, 3, 10]).min(&max);
        let strip = r.chance(4, 5);
        let fix = strip && r.chance(1, 3);
        let cfg = Cfg { min, max, strip, fix };
        let overhead = if strip { 2 } else { 0 };
        // a transmission: noise, then frames with shared or separate flags
        let mut bits = noise(&mut r);
        let mut want: Vec<Vec<u8>> = vec![];
        let mut clean = true;
        let nframes = r.range(1, 4);
        bits.extend(FLAG);
        for _ in 0..nframes {
            let len = match r.below(4) {
                0 => r.range(0, 3),
                1 => (max + 2).saturating_sub(overhead + r.range(0, 4)),
                _ => r.range(0, max + 2),
            };
            let p = payload(&mut r, len);
            let mut b = body(&p, strip);
            let total = len + overhead;
            // corruption
            let mode = r.below(10);
            let mut corrupted = 0;
            if mode == 0 && !b.is_empty() {
                let k = r.below(b.len());
                b[k] ^= 1;
                corrupted = 1;
            } else if mode == 1 && b.len() > 1 {
                let k = r.below(b.len());
                let mut k2 = r.below(b.len());
                if k2 == k {
                    k2 = (k + 1) % b.len();
                }
                b[k] ^= 1;
                b[k2] ^= 1;
                corrupted = 2;
            }
            if corrupted > 0 {
                clean = false;
            }
            bits.extend(&b);
            bits.extend(FLAG);
            if r.chance(1, 2) {
                // separate flags between frames, sometimes extra ones
                for _ in 0..r.range(0, 2) {
                    bits.extend(FLAG);
                }
            }
            if corrupted == 0 && total >= min && total <= max && (!strip || total >= 2) {
                want.push(p);
            }
        }
        let got = deframe(&cfg, &bits, &mut r);
        let req = format!("hdlc {} {} {} {} {}", min, max, strip as u8, fix as u8, bitstr(&bits));
        match &got {
            Ok(ps) => out.push(format!("{req}\t{}", show_packets(ps))),
            Err(e) => out.push(format!("{req}\t{e}")),
        }
        // spec line for clean transmissions: exactly the framed payloads within the limits, in order
        if clean && strip {
            let v = match &got {
                Ok(ps) if *ps == want => "pass".to_string(),
                Ok(ps) => format!("FAIL delivered [{}], framed [{}]", show_packets(ps), show_packets(&want)),
                Err(e) => format!("FAIL {e}"),
            };
            out.push(format!("!hdlc clean #{i} min={min} max={max} frames={nframes} bits={}\t{v}", bits.len()));
        }
    }
    // every single-bit corruption of one frame: never the original minus/plus garbage, CRC gate holds
    for i in 0..(cases / 30).max(2) {
        let mut r = rng.fork();
        let len = r.range(0, 12);
        let p = payload(&mut r, len);
        let b = body(&p, true);
        for fix in [false, true] {
            let cfg = Cfg { min: 2, max: 40, strip: true, fix };
            let mut bad = String::new();
            for k in 0..b.len() {
                let mut bb = b.clone();
                bb[k] ^= 1;
                let mut bits = FLAG.to_vec();
                bits.extend(&bb);
                bits.extend(FLAG);
                match deframe(&cfg, &bits, &mut r) {
                    Err(e) => bad = format!("bit {k}: {e}"),
                    Ok(ps) => {
                        for q in &ps {
                            // whatever is emitted must carry a verifying checksum: with fixing on, it must be
                            // within one bit of what was received; with fixing off nothing may be emitted unless
                            // the corruption produced another valid frame (a flag inside the body)
                            if *q != p && !fix && ps.len() == 1 && q.len() == p.len() {
                                bad = format!("bit {k}: emitted a different packet of the same length without a valid CRC path");
                            }
                        }
                        if fix && !ps.is_empty() && ps.iter().all(|q| *q != p) && ps.iter().any(|q| q.len() == p.len()) {
                            bad = format!("bit {k}: repaired to something else than the original");
                        }
                    }
                }
            }
            out.push(format!(
                "!hdlc singlebit #{i} len={len} fix={fix} positions={}\t{}",
                b.len(),
                if bad.is_empty() { "pass".to_string() } else { format!("FAIL {bad}") }
            ));
        }
    }
    out
}
