//! C05 / C06 (result part) / C20 support: generated graphs over the block
//! library, run on both runners in many configurations, compared with a
//! sequential reference execution of the same blocks on the same source data.
use crate::common::*;
use crate::drip::gen_data;
use crate::ring::Elem;
use rustradio::block::{Block, BlockEOF, BlockName, BlockRet};
use rustradio::blocks::*;
use rustradio::graph::{Graph, GraphRunner};
use rustradio::mtgraph::MTGraph;
use rustradio::stream::{NCReadStream, ReadStream};
use rustradio::{Complex, Result};
use std::sync::{Arc, Mutex};

type B = Box<dyn Block + Send>;

enum Edge {
    U8(ReadStream<u8>),
    U32(ReadStream<u32>),
    F32(ReadStream<f32>),
    C(ReadStream<Complex>),
    Pkt(NCReadStream<Vec<u8>>),
}

impl Edge {
    fn kind(&self) -> u8 {
        match self {
            Edge::U8(_) => 0,
            Edge::U32(_) => 1,
            Edge::F32(_) => 2,
            Edge::C(_) => 3,
            Edge::Pkt(_) => 4,
        }
    }
}

/// A sink for packets (the library has none that keeps them).
struct PktSink {
    src: NCReadStream<Vec<u8>>,
    store: Arc<Mutex<Vec<u64>>>,
}
impl BlockName for PktSink {
    fn block_name(&self) -> &str {
        "PktSink"
    }
}
impl BlockEOF for PktSink {
    fn eof(&mut self) -> bool {
        self.src.eof()
    }
}
impl Block for PktSink {
    fn work(&mut self) -> Result<BlockRet> {
        match self.src.pop() {
            None => Ok(BlockRet::WaitForStream(&self.src, 1)),
            Some((p, _)) => {
                let mut s = self.store.lock().unwrap();
                s.push(p.len() as u64);
                s.extend(p.iter().map(|b| *b as u64));
                Ok(BlockRet::Again)
            }
        }
    }
}

pub struct Built {
    pub blocks: Vec<B>,
    pub sinks: Vec<Box<dyn Fn() -> Vec<u64> + Send>>,
    pub desc: String,
}

/// Directory for the files of FileSink sinks (set while `run` is active).
static FILE_DIR: Mutex<Option<std::path::PathBuf>> = Mutex::new(None);
static FILE_CTR: std::sync::atomic::AtomicUsize = std::sync::atomic::AtomicUsize::new(0);

/// A sink: VectorSink, or (`as_file`) a FileSink whose file is read back when the result is taken — which
/// happens when `run()` has returned and the graph still exists ("every sink holds the result at return").
fn sink_of<T>(r: ReadStream<T>, blocks: &mut Vec<B>, sinks: &mut Vec<Box<dyn Fn() -> Vec<u64> + Send>>, as_file: bool)
where
    T: Elem + Sync + rustradio::Sample<Type = T> + std::fmt::Debug + Default,
{
    let dir = FILE_DIR.lock().unwrap().clone();
    if let (true, Some(dir)) = (as_file, dir) {
        let k = FILE_CTR.fetch_add(1, std::sync::atomic::Ordering::SeqCst);
        let path = dir.join(format!("sink{k}.bin"));
        let s = rustradio::file_sink::FileSink::new(r, &path, rustradio::file_sink::Mode::Overwrite).expect("file sink");
        blocks.push(Box::new(s));
        sinks.push(Box::new(move || {
            let bytes = std::fs::read(&path).unwrap_or_default();
            let _ = std::fs::remove_file(&path);
            bytes
                .chunks_exact(T::SIZE)
                .map(|c| {
                    let mut v = 0u128;
                    for (i, b) in c.iter().enumerate() {
                        v |= (*b as u128) << (8 * i);
                    }
                    T::from_nat(v).to_obs() as u64
                })
                .collect()
        }));
        return;
    }
    let s = VectorSink::new(r, 100_000_000);
    let hook = s.hook();
    blocks.push(Box::new(s));
    sinks.push(Box::new(move || hook.data().samples().iter().map(|v| v.to_obs() as u64).collect()));
}

fn int_taps(rng: &mut Rng, n: usize) -> Vec<f32> {
    (0..n).map(|_| (rng.range(0, 4) as i32 - 2) as f32).collect()
}

/// One processing stage applied to an open edge. `calm` = only rate-1, small-skew stages (inside diamonds).
fn stage(e: Edge, rng: &mut Rng, calm: bool, blocks: &mut Vec<B>, desc: &mut String) -> Edge {
    let params = std::cell::RefCell::new(Vec::<usize>::new());
    macro_rules! put {
        ($name:expr, $ctor:expr) => {{
            let (b, o) = $ctor;
            blocks.push(Box::new(b));
            desc.push_str($name);
            for p in params.borrow().iter() {
                desc.push_str(&format!(":{p}"));
            }
            desc.push(' ');
            o
        }};
    }
    let small = |rng: &mut Rng| {
        let v = rng.range(0, 20);
        params.borrow_mut().push(v);
        v
    };
    match e {
        Edge::U8(r) => match rng.below(if calm { 5 } else { 9 }) {
            0 => Edge::U8(put!("xorconst", XorConst::new(r, rng.below(2) as u8))),
            1 => Edge::U8(put!("nrzi", NrziDecode::new(r))),
            2 => Edge::U8(put!("descr", Descrambler::new_g3ruh(r))),
            3 => Edge::U8(put!("delay", Delay::new(r, small(rng)))),
            4 => Edge::U8(put!("skip", Skip::new(r, small(rng)))),
            5 => Edge::U8(put!("resamp", RationalResampler::new(r, rng.range(1, 5), rng.range(1, 5)).unwrap())),
            6 => Edge::U8(put!("cac", CorrelateAccessCode::new(r, vec![1, 0, 1, 1], 0))),
            7 => Edge::C(put!("rtlsdr", RtlSdrDecode::new(r))),
            _ => Edge::Pkt(put!("hdlc", HdlcDeframer::new(r, 2, 50))),
        },
        Edge::U32(r) => match rng.below(if calm { 3 } else { 4 }) {
            0 => Edge::U32(put!("xorconst32", XorConst::new(r, rng.next() as u32))),
            1 => Edge::U32(put!("delay32", Delay::new(r, small(rng)))),
            2 => Edge::U32(put!("skip32", Skip::new(r, small(rng)))),
            _ => Edge::U32(put!("resamp32", RationalResampler::new(r, rng.range(1, 5), rng.range(1, 5)).unwrap())),
        },
        Edge::F32(r) => match rng.below(if calm { 4 } else { 10 }) {
            0 => Edge::F32(put!("addconst", AddConst::new(r, 1.0f32))),
            1 => Edge::F32(put!("mulconst", MultiplyConst::new(r, 2.0f32))),
            2 => Edge::F32(put!("iir1", SinglePoleIirFilter::new(r, 0.5).unwrap())),
            3 => Edge::F32(put!("delayf", Delay::new(r, small(rng)))),
            4 => {
                let nt = rng.range(1, 12);
                let t = int_taps(rng, nt);
                let d = rng.range(1, 3);
                Edge::F32(put!("fir", FirFilterBuilder::new(&t).deci(d).build(r)))
            }
            5 => Edge::U8(put!("slicer", BinarySlicer::new(r))),
            6 => Edge::F32(put!("zerocross", ZeroCrossing::new(r, 4.0, 0.1))),
            7 => Edge::C(put!("hilbert", Hilbert::new(r, 2 * rng.range(1, 8) + 1, &rustradio::window::WindowType::Hamming))),
            8 => {
                let nt = rng.range(1, 12);
                let t = int_taps(rng, nt);
                Edge::F32(put!("fftfilter_f", FftFilterFloat::new(r, &t)))
            }
            _ => Edge::F32(put!("resampf", RationalResampler::new(r, rng.range(1, 5), rng.range(1, 5)).unwrap())),
        },
        Edge::C(r) => match rng.below(if calm { 1 } else { 5 }) {
            0 => Edge::C(put!("delayc", Delay::new(r, small(rng)))),
            1 => Edge::F32(put!("mag2", ComplexToMag2::new(r))),
            2 => Edge::F32(put!("quaddemod", QuadratureDemod::new(r, 1.0))),
            3 => {
                let nt = rng.range(1, 10);
                let t: Vec<Complex> = int_taps(rng, nt).iter().map(|v| Complex::new(*v, 0.0)).collect();
                Edge::C(put!("fftfilter", FftFilter::new(r, &t)))
            }
            _ => Edge::C(put!("fftstream", FftStream::new(r, *rng.pick(&[2usize, 4, 8])))),
        },
        Edge::Pkt(r) => Edge::U8(put!("v2s", VecToStream::new(r))),
    }
}

fn tee(e: Edge, blocks: &mut Vec<B>, desc: &mut String) -> (Edge, Edge) {
    desc.push_str("tee ");
    macro_rules! t {
        ($v:ident, $r:expr) => {{
            let (b, a, c) = Tee::new($r);
            blocks.push(Box::new(b));
            (Edge::$v(a), Edge::$v(c))
        }};
    }
    match e {
        Edge::U8(r) => t!(U8, r),
        Edge::U32(r) => t!(U32, r),
        Edge::F32(r) => t!(F32, r),
        Edge::C(r) => t!(C, r),
        Edge::Pkt(r) => {
            // packets cannot be tee'd: convert to a byte stream first
            desc.push_str("(v2s) ");
            let (b, o) = VecToStream::new(r);
            blocks.push(Box::new(b));
            let (b, a, c) = Tee::new(o);
            blocks.push(Box::new(b));
            (Edge::U8(a), Edge::U8(c))
        }
    }
}

fn merge(a: Edge, b: Edge, blocks: &mut Vec<B>, desc: &mut String) -> std::result::Result<Edge, (Edge, Edge)> {
    match (a, b) {
        (Edge::U8(x), Edge::U8(y)) => {
            let (b, o) = Xor::new(x, y);
            blocks.push(Box::new(b));
            desc.push_str("xor ");
            Ok(Edge::U8(o))
        }
        (Edge::U32(x), Edge::U32(y)) => {
            let (b, o) = Xor::new(x, y);
            blocks.push(Box::new(b));
            desc.push_str("xor32 ");
            Ok(Edge::U32(o))
        }
        (Edge::F32(x), Edge::F32(y)) => {
            let (b, o) = Add::new(x, y);
            blocks.push(Box::new(b));
            desc.push_str("addf ");
            Ok(Edge::F32(o))
        }
        (Edge::C(x), Edge::C(y)) => {
            let (b, o) = Add::new(x, y);
            blocks.push(Box::new(b));
            desc.push_str("addc ");
            Ok(Edge::C(o))
        }
        (a, b) => Err((a, b)),
    }
}

/// Deterministic from `seed`: the same recipe builds the same graph every time.
pub fn build(seed: u64) -> Built {
    let mut rng = Rng::new(seed);
    let mut blocks: Vec<B> = vec![];
    let mut sinks: Vec<Box<dyn Fn() -> Vec<u64> + Send>> = vec![];
    let mut desc = String::new();
    let mut open: Vec<Edge> = vec![];
    let nsrc = rng.range(1, 2);
    for _ in 0..nsrc {
        let kind = rng.below(4);
        let cap = [4096usize, 1024, 1024, 512][kind];
        let len = match rng.below(5) {
            0 => rng.range(0, 3),
            1 => cap + rng.range(0, 10),
            2 => rng.range(0, 3 * cap),
            _ => rng.range(0, 600),
        };
        let rep = *rng.pick(&[1u64, 1, 1, 2]);
        let seed = rng.next() >> 8;
        desc.push_str(&format!("src{kind}[{len}x{rep}] "));
        match kind {
            0 => {
                let d: Vec<u8> = gen_data(len, seed, 2, &[]).iter().map(|v| *v as u8).collect();
                let (mut b, o) = VectorSource::new(d);
                b.set_repeat(rustradio::Repeat::finite(rep));
                blocks.push(Box::new(b));
                open.push(Edge::U8(o));
            }
            1 => {
                let d: Vec<u32> = gen_data(len, seed, 1 << 32, &[]).iter().map(|v| *v as u32).collect();
                let (mut b, o) = VectorSource::new(d);
                b.set_repeat(rustradio::Repeat::finite(rep));
                blocks.push(Box::new(b));
                open.push(Edge::U32(o));
            }
            2 => {
                let d: Vec<f32> = gen_data(len, seed, 9, &[]).iter().map(|v| *v as f32 - 4.0).collect();
                let (mut b, o) = VectorSource::new(d);
                b.set_repeat(rustradio::Repeat::finite(rep));
                blocks.push(Box::new(b));
                open.push(Edge::F32(o));
            }
            _ => {
                let d: Vec<Complex> = gen_data(2 * len, seed, 9, &[])
                    .chunks(2)
                    .map(|c| Complex::new(c[0] as f32 - 4.0, c[1] as f32 - 4.0))
                    .collect();
                let (mut b, o) = VectorSource::new(d);
                b.set_repeat(rustradio::Repeat::finite(rep));
                blocks.push(Box::new(b));
                open.push(Edge::C(o));
            }
        }
    }
    let steps = rng.range(0, 6);
    for _ in 0..steps {
        let i = rng.below(open.len());
        let e = open.swap_remove(i);
        match rng.below(6) {
            0 => {
                // diamond: tee, calm stages on both branches, merge
                let (mut a, mut b) = tee(e, &mut blocks, &mut desc);
                for _ in 0..rng.range(0, 2) {
                    if a.kind() == b.kind() {
                        // keep both branches the same type: apply type-preserving calm stages only
                        let ka = a.kind();
                        let na = stage(a, &mut rng, true, &mut blocks, &mut desc);
                        if na.kind() != ka {
                            a = na;
                            break;
                        }
                        a = na;
                    }
                }
                for _ in 0..rng.range(0, 2) {
                    let kb = b.kind();
                    let nb = stage(b, &mut rng, true, &mut blocks, &mut desc);
                    if nb.kind() != kb {
                        b = nb;
                        break;
                    }
                    b = nb;
                }
                match merge(a, b, &mut blocks, &mut desc) {
                    Ok(m) => open.push(m),
                    Err((a, b)) => {
                        open.push(a);
                        open.push(b);
                    }
                }
            }
            1 => {
                let (a, b) = tee(e, &mut blocks, &mut desc);
                open.push(a);
                open.push(b);
            }
            _ => {
                let o = stage(e, &mut rng, false, &mut blocks, &mut desc);
                open.push(o);
            }
        }
    }
    // (No merging of unrelated open edges: a merge whose inputs have different lengths stops consuming the longer
    // one when the shorter ends; if the longer comes from a tee, the tee's other branch is starved once the buffers
    // fill - a bounded-buffer deadlock of the graph, excluded by C05's hypothesis, not a runner defect.)
    for e in open {
        match e {
            Edge::U8(r) => sink_of(r, &mut blocks, &mut sinks, rng.chance(1, 3)),
            Edge::U32(r) => sink_of(r, &mut blocks, &mut sinks, rng.chance(1, 3)),
            Edge::F32(r) => sink_of(r, &mut blocks, &mut sinks, rng.chance(1, 3)),
            Edge::C(r) => sink_of(r, &mut blocks, &mut sinks, rng.chance(1, 3)),
            Edge::Pkt(r) => {
                let store = Arc::new(Mutex::new(vec![]));
                let s2 = store.clone();
                blocks.push(Box::new(PktSink { src: r, store }));
                sinks.push(Box::new(move || s2.lock().unwrap().clone()));
            }
        }
    }
    Built { blocks, sinks, desc }
}

/// Sequential reference: each block in topological (creation) order runs until it stops moving data.
fn reference(seed: u64) -> std::result::Result<Vec<Vec<u64>>, String> {
    rustradio::verif::set_stream_size(0); // default 4 MB streams: every block can run to completion
    let mut g = build(seed);
    for b in g.blocks.iter_mut() {
        let mut idle = 0;
        for _ in 0..2_000_000 {
            let moved = {
                let before = crate::graphs::activity_probe();
                let r = quiet(|| b.work().map(|r| matches!(r, BlockRet::EOF)));
                match r {
                    Ok(Ok(true)) => break,
                    Ok(Ok(false)) => {}
                    Ok(Err(e)) => return Err(format!("reference: block failed: {e}")),
                    Err(p) => return Err(format!("reference: panic: {p}")),
                }
                crate::graphs::activity_probe() != before
            };
            if moved {
                idle = 0;
            } else {
                idle += 1;
                if idle >= 3 {
                    break;
                }
            }
        }
    }
    Ok(g.sinks.iter().map(|s| s()).collect())
}

static ACTIVITY: std::sync::atomic::AtomicU64 = std::sync::atomic::AtomicU64::new(0);
pub static PER_STREAM: Mutex<Vec<(usize, usize, usize)>> = Mutex::new(Vec::new());
pub fn activity_probe() -> u64 {
    ACTIVITY.load(std::sync::atomic::Ordering::SeqCst)
}
fn install_activity() {
    rustradio::verif::set_callback(Some(Arc::new(|id, a, _b| {
        use rustradio::verif::pt::*;
        if (id == CONSUME_RETURN || id == PRODUCE_RETURN || id == NC_PUSH || id == NC_POP) && a > 0 {
            ACTIVITY.fetch_add(1, std::sync::atomic::Ordering::SeqCst);
            if std::env::var("RRH_STREAMS").is_ok() {
                let mut m = PER_STREAM.lock().unwrap();
                let prod = id == PRODUCE_RETURN || id == NC_PUSH;
                if let Some(e) = m.iter_mut().find(|e| e.0 == _b) {
                    if prod { e.1 += a } else { e.2 += a }
                } else {
                    m.push((_b, if prod { a } else { 0 }, if prod { 0 } else { a }));
                }
            }
        }
    })));
}

fn permute<T>(v: &mut Vec<T>, rng: &mut Rng) {
    for i in (1..v.len()).rev() {
        let j = rng.below(i + 1);
        v.swap(i, j);
    }
}

#[derive(Clone, Copy, Debug)]
struct Config {
    mt: bool,
    stream_bytes: usize,
    order: u8, // 0 = as created, 1 = reversed, 2 = random
}

fn run_config(seed: u64, cfg: Config, rng: &mut Rng) -> std::result::Result<Vec<Vec<u64>>, String> {
    rustradio::verif::set_stream_size(cfg.stream_bytes);
    let g = build(seed);
    rustradio::verif::set_stream_size(0);
    let mut blocks = g.blocks;
    match cfg.order {
        1 => blocks.reverse(),
        2 => permute(&mut blocks, rng),
        _ => {}
    }
    let sinks = g.sinks;
    let (tx, rx) = std::sync::mpsc::channel();
    let mt = cfg.mt;
    let (ttx, trx) = std::sync::mpsc::channel();
    let th = std::thread::spawn(move || {
        let res = if mt {
            let mut gr = MTGraph::new();
            ttx.send(gr.cancel_token()).unwrap();
            for b in blocks {
                gr.add(b);
            }
            let r = quiet(|| gr.run().map_err(|e| e.to_string()));
            // the sinks are read while the graph (and, single-threaded, every block) still exists
            let data: Vec<Vec<u64>> = sinks.iter().map(|s| s()).collect();
            (r, data)
        } else {
            let mut gr = Graph::new();
            ttx.send(gr.cancel_token()).unwrap();
            for b in blocks {
                gr.add(b);
            }
            let r = quiet(|| gr.run().map_err(|e| e.to_string()));
            let data: Vec<Vec<u64>> = sinks.iter().map(|s| s()).collect();
            (r, data)
        };
        let _ = tx.send(res);
    });
    let token = trx.recv().unwrap();
    let (res, data) = match rx.recv_timeout(std::time::Duration::from_secs(30)) {
        Ok(r) => r,
        Err(_) => {
            token.cancel();
            let _ = rx.recv_timeout(std::time::Duration::from_secs(5));
            return Err("run() did not return within 30 s (hang)".into());
        }
    };
    th.join().ok();
    match res {
        Ok(Ok(())) => Ok(data),
        Ok(Err(e)) => Err(format!("run() returned an error: {e}")),
        Err(p) => Err(format!("run() panicked: {p}")),
    }
}

pub fn run(args: &[String]) -> Vec<String> {
    if let Some(g) = arg(args, "--one").and_then(|s| s.parse::<u64>().ok()) {
        install_activity();
        let r = reference(g).unwrap();
        eprintln!("reference: {:?}", r.iter().map(|v| v.len()).collect::<Vec<_>>());
        eprintln!("  streams (produced, consumed): {:?}", PER_STREAM.lock().unwrap().iter().map(|e| (e.1, e.2)).collect::<Vec<_>>());
        PER_STREAM.lock().unwrap().clear();
        let mut rng = Rng::new(1);
        for (mt, size, order) in [(false, 8192usize, 0u8), (true, 8192, 0), (false, 4_096_000, 0), (false, 4096, 1)] {
            let got = run_config(g, Config { mt, stream_bytes: size, order }, &mut rng);
            eprintln!("mt={mt} size={size} order={order}: {:?}", got.map(|r| r.iter().map(|v| v.len()).collect::<Vec<_>>()));
            eprintln!("  streams (produced, consumed): {:?}", PER_STREAM.lock().unwrap().iter().map(|e| (e.1, e.2)).collect::<Vec<_>>());
            PER_STREAM.lock().unwrap().clear();
        }
        return vec![];
    }
    let seed = arg_usize(args, "--seed", 1) as u64;
    let cases = arg_usize(args, "--cases", 50);
    let which = arg(args, "--runner").unwrap_or("both".into());
    let filedir = tempfile::tempdir().unwrap();
    *FILE_DIR.lock().unwrap() = Some(filedir.path().to_path_buf());
    let configs_per = arg_usize(args, "--configs", 4);
    install_activity();
    let mut rng = Rng::new(seed);
    let mut out = Vec::new();
    let mut hangs = 0usize;
    for i in 0..cases {
        let gseed = rng.next();
        let desc = {
            rustradio::verif::set_stream_size(4096);
            let d = build(gseed).desc;
            rustradio::verif::set_stream_size(0);
            d
        };
        let reference = reference(gseed);
        for c in 0..configs_per {
            let mt = match which.as_str() {
                "mt" => true,
                "st" => false,
                _ => (c + i) % 2 == 0,
            };
            let cfg = Config {
                mt,
                stream_bytes: *rng.pick(&[4096usize, 4096, 8192, 16384, 4_096_000]),
                order: rng.below(3) as u8,
            };
            let got = run_config(gseed, cfg, &mut rng);
            let verdict = match (&reference, &got) {
                (Err(e), _) => format!("FAIL {e}"),
                (_, Err(e)) => format!("FAIL {e}"),
                (Ok(r), Ok(g)) => {
                    if r == g {
                        "pass".into()
                    } else {
                        let j = (0..r.len()).find(|j| r[*j] != g[*j]).unwrap_or(0);
                        let first = r[j].iter().zip(&g[j]).position(|(a, b)| a != b);
                        format!(
                            "FAIL sink {j}: {} items, reference has {}, first difference at {first:?}",
                            g[j].len(),
                            r[j].len()
                        )
                    }
                }
            };
            if verdict.contains("(hang)") {
                hangs += 1;
            }
            out.push(format!(
                "!graph #{i} seed={gseed} {} size={} order={} [{}]\t{verdict}\t{}",
                if cfg.mt { "mt" } else { "st" },
                cfg.stream_bytes,
                cfg.order,
                desc.trim(),
                if verdict == "pass" { "" } else if cfg.mt { "mt-result" } else { "st-result" }
            ));
            if hangs >= 3 {
                break;
            }
        }
        if hangs >= 3 {
            // each hang costs its time-out and leaves stuck threads behind: three are enough to report
            out.push(format!("# graphs stopped after {hangs} runs that did not return"));
            break;
        }
    }
    rustradio::verif::set_callback(None);
    *FILE_DIR.lock().unwrap() = None;
    drop(filedir);
    out
}

/// Hand-built reproduction graphs (debugging aid).
pub fn repro(args: &[String]) {
    let size = arg_usize(args, "--size", 8192);
    let variant = arg_usize(args, "--variant", 0);
    let n = arg_usize(args, "--n", 4101);
    rustradio::verif::set_stream_size(size);
    let d: Vec<u8> = gen_data(n, 7, 2, &[]).iter().map(|v| *v as u8).collect();
    let (src, o) = VectorSource::new(d);
    let mut g = Graph::new();
    g.add(Box::new(src));
    let sink = match variant {
        0 => {
            // tee -> (rtlsdr) + (rtlsdr -> delay 8) -> add
            let (t, a, b) = Tee::new(o);
            g.add(Box::new(t));
            let (r1, c1) = RtlSdrDecode::new(a);
            g.add(Box::new(r1));
            let (r2, c2) = RtlSdrDecode::new(b);
            g.add(Box::new(r2));
            let (dl, c2d) = Delay::new(c2, 8);
            g.add(Box::new(dl));
            let (ad, out) = Add::new(c1, c2d);
            g.add(Box::new(ad));
            let s = VectorSink::new(out, 100_000_000);
            let h = s.hook();
            g.add(Box::new(s));
            h
        }
        _ => {
            // rtlsdr -> tee -> (direct) + (delay 8) -> add
            let (r1, c) = RtlSdrDecode::new(o);
            g.add(Box::new(r1));
            let (t, a, b) = Tee::new(c);
            g.add(Box::new(t));
            let (dl, bd) = Delay::new(b, 8);
            g.add(Box::new(dl));
            let (ad, out) = Add::new(a, bd);
            g.add(Box::new(ad));
            let s = VectorSink::new(out, 100_000_000);
            let h = s.hook();
            g.add(Box::new(s));
            h
        }
    };
    g.run().unwrap();
    println!("variant {variant} size {size}: sink has {} of {}", sink.data().samples().len(), n / 2);
}
