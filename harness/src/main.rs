//! `rrh`: correspondence harness between the real rustradio code and the Lean models.
//!
//! `rrh <sub> [--seed N] [--cases N] [--only I] …` prints one line per case:
//! `request<TAB>observed[<TAB>finding-key]`. Requests are answered by the Lean
//! driver (`rrdriver`); requests starting with `!` are self-checking (observed
//! must be `pass`). Lines starting with `#` are statistics (JSON).
mod common;
mod blocks;
mod bytes;
mod conc;
mod crash;
mod drip;
mod dsp;
mod e2e;
mod fsink;
mod graphs;
mod hdlc;
mod ring;
mod sched;
mod sources;
mod vm;
mod waits;

fn main() {
    common::silence_panics();
    let args: Vec<String> = std::env::args().collect();
    // A panic of the code under test that escapes the per-case guards (e.g. inside a drop, or in a
    // helper thread that poisons a lock) must still come out as a line, not as a silent exit 101.
    let guarded = common::quiet(|| collect(&args));
    let lines = match guarded {
        Ok(l) => l,
        Err(p) => vec![format!(
            "!harness {}\tFAIL the code under test panicked outside a guarded call: {p}",
            args[1..].join(" ")
        )],
    };
    emit(&args, lines);
}

fn collect(args: &[String]) -> Vec<String> {
    let args: Vec<String> = args.to_vec();
    let lines = match args.get(1).map(|s| s.as_str()) {
        Some("ring") => ring::run(&args),
        Some("blocks") => blocks::run(&args),
        Some("sched") => sched::run(&args),
        Some("e2e") => e2e::run(&args),
        Some("digital") => {
            e2e::digital_probe(&args);
            vec![]
        }
        Some("symsync") => {
            e2e::symsync_probe(&args);
            vec![]
        }
        Some("crash") => crash::run(&args),
        Some("dsp") => dsp::run(&args),
        Some("bytes") => bytes::run(&args),
        Some("vm") => vm::run(&args),
        Some("vmtrace") => {
            vm::trace(&args);
            vec![]
        }
        Some("vm-exhaust") => {
            vm::exhaust_child(&args);
            vec![]
        }
        Some("fsink-open-probe") => {
            fsink::open_probe();
            vec![]
        }
        Some("fsink") => fsink::run(&args),
        Some("fsink-child") => {
            fsink::child(&args);
            vec![]
        }
        Some("hdlc") => hdlc::run(&args),
        Some("graphs") => graphs::run(&args),
        Some("repro") => {
            graphs::repro(&args);
            vec![]
        }
        Some("sources") => sources::run(&args),
        Some("conc") => conc::run(&args),
        Some("waits") => waits::run(&args),
        other => {
            eprintln!("unknown subcommand {other:?}");
            std::process::exit(2);
        }
    };
    lines
}

fn emit(args: &[String], lines: Vec<String>) {
    let only = common::arg(args, "--only").and_then(|s| s.parse::<usize>().ok());
    let stdout = std::io::stdout();
    let mut lock = stdout.lock();
    use std::io::Write;
    let mut idx = 0usize;
    for l in lines {
        if l.starts_with('#') {
            if only.is_none() {
                writeln!(lock, "{l}").unwrap();
            }
            continue;
        }
        if only.is_none() || only == Some(idx) {
            writeln!(lock, "{l}").unwrap();
        }
        idx += 1;
    }
}
