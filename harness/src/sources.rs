//! C16: finite sources emit their data exactly `repeat` times, then EOF.
use crate::common::*;
use crate::drip::*;
use rustradio::Repeat;
use rustradio::block::{Block, BlockRet};
use rustradio::blocks::*;
use rustradio::stream::ReadStream;
use std::io::Write;

const INF: u64 = 1 << 32;

fn repeat_of(rep: u64) -> Repeat {
    if rep == INF { Repeat::infinite() } else { Repeat::finite(rep) }
}

/// VectorSource under a random drain schedule, compared with the Lean model.
fn vsrc_case(rng: &mut Rng) -> String {
    let rep = *rng.pick(&[0u64, 1, 1, 2, 3, INF]);
    let len = *rng.pick(&[0usize, 1, 2, 5, 100, 1023, 1024, 1025, 2500]);
    let len = if rng.chance(1, 3) { rng.range(0, 3000) } else { len };
    let seed = rng.next() >> 8;
    let m = 1u64 << 32;
    let data: Vec<u32> = gen_data(len, seed, m, &[]).iter().map(|v| *v as u32).collect();
    let (mut b, o) = VectorSource::new(data);
    b.set_repeat(repeat_of(rep));
    let rig = Rig { block: Box::new(b), ins: vec![], outs: vec![drainer(o)] };
    let mut acts = Vec::new();
    let n = rng.range(1, 30);
    for _ in 0..n {
        match rng.below(3) {
            0 => acts.push(Act::Drain(0, *rng.pick(&[0usize, 1, 2, 100, 1000, 5000]))),
            _ => acts.push(Act::Work),
        }
    }
    // finish: alternate until EOF would be reached for finite repeats
    let total = if rep == INF { 3 * 1024 } else { len * rep as usize };
    for _ in 0..(total / 1024 + 3) {
        acts.push(Act::Work);
        acts.push(Act::Work);
        acts.push(Act::Drain(0, 100_000));
    }
    acts.push(Act::Work);
    let req = request("vsrc", &[rep, len as u64, seed, m], &rig, &[], &acts);
    let obs = run_case(rig, &[], &acts);
    format!("{req}\t{obs}")
}

/// FileSource on a real file, call by call against the Lean model (`fsrc`): file length not necessarily a
/// whole number of samples, data smaller and larger than the stream, every repeat mode.
fn fsrc_case(rng: &mut Rng, idx: usize, dir: &std::path::Path) -> String {
    let rep = *rng.pick(&[0u64, 1, 1, 2, 3, INF]);
    let nbytes = match rng.below(4) {
        0 => rng.range(0, 12),
        1 => 4 * rng.range(0, 1100) + rng.below(4),
        2 => 4096 + rng.below(9),
        _ => rng.range(0, 9000),
    };
    let seed = rng.next() >> 8;
    let bytes: Vec<u8> = gen_data(nbytes, seed, 256, &[]).iter().map(|v| *v as u8).collect();
    let path = dir.join(format!("fsrc{idx}.bin"));
    std::fs::write(&path, &bytes).unwrap();
    let (mut b, o) = FileSource::<u32>::new(&path).unwrap();
    b.repeat(repeat_of(rep));
    let rig = Rig { block: Box::new(b), ins: vec![], outs: vec![drainer(o)] };
    let mut acts = Vec::new();
    for _ in 0..rng.range(1, 30) {
        match rng.below(3) {
            0 => acts.push(Act::Drain(0, *rng.pick(&[0usize, 1, 2, 100, 1000, 5000]))),
            _ => acts.push(Act::Work),
        }
    }
    let total = if rep == INF { 3 * 1024 } else { nbytes / 4 * rep as usize };
    for _ in 0..(total / 1024 + 3) {
        acts.push(Act::Work);
        acts.push(Act::Work);
        acts.push(Act::Drain(0, 100_000));
    }
    for _ in 0..(2 * rep.min(4) as usize + 2) {
        acts.push(Act::Work);
    }
    let req = request("fsrc", &[rep, nbytes as u64, seed, 4], &rig, &[], &acts);
    let obs = run_case(rig, &[], &acts);
    format!("{req}\t{obs}")
}

/// SigMFSource (f32 recording) call by call against the Lean model (`sgsrc`).
fn sgsrc_case(rng: &mut Rng, idx: usize, dir: &std::path::Path) -> String {
    let rep = *rng.pick(&[0u64, 1, 1, 2, 3, INF]);
    let nbytes = match rng.below(4) {
        0 => rng.range(0, 12),
        1 => 4 * rng.range(0, 1100) + rng.below(4),
        2 => 4096 + rng.below(9),
        _ => rng.range(0, 9000),
    };
    let seed = rng.next() >> 8;
    let bytes: Vec<u8> = gen_data(nbytes, seed, 256, &[])
        .iter()
        .enumerate()
        .map(|(i, v)| if i % 4 == 3 { (*v % 64) as u8 } else { *v as u8 })
        .collect();
    let base = dir.join(format!("sg{idx}"));
    std::fs::write(dir.join(format!("sg{idx}-data")), &bytes).unwrap();
    std::fs::write(
        dir.join(format!("sg{idx}-meta")),
        r#"{"global": {"core:datatype": "rf32_le", "core:version": "1.1.0"}, "captures": [], "annotations": []}"#,
    )
    .unwrap();
    let (b, o) = match quiet(|| SigMFSourceBuilder::<f32>::new(base.clone()).repeat(repeat_of(rep)).build()) {
        Ok(Ok(x)) => x,
        Ok(Err(e)) => return format!("!src sgsrc #{idx}\tFAIL cannot open: {e}"),
        Err(p) => return format!("!src sgsrc #{idx}\tFAIL panic in build: {p}"),
    };
    let rig = Rig { block: Box::new(b), ins: vec![], outs: vec![drainer(o)] };
    let mut acts = Vec::new();
    for _ in 0..rng.range(1, 30) {
        match rng.below(3) {
            0 => acts.push(Act::Drain(0, *rng.pick(&[0usize, 1, 2, 100, 1000, 5000]))),
            _ => acts.push(Act::Work),
        }
    }
    let total = if rep == INF { 3 * 1024 } else { nbytes / 4 * rep as usize };
    for _ in 0..(total / 1024 + 3) {
        acts.push(Act::Work);
        acts.push(Act::Work);
        acts.push(Act::Drain(0, 100_000));
    }
    for _ in 0..(2 * rep.min(4) as usize + 2) {
        acts.push(Act::Work);
    }
    let req = request("sgsrc", &[rep, nbytes as u64, seed, 4], &rig, &[], &acts);
    let obs = run_case(rig, &[], &acts);
    format!("{req}\t{obs}")
}

/// The `Repeat` API: every call sequence over {again, done, count} up to a depth.
fn repeat_lines(depth: usize) -> Vec<String> {
    let mut out = vec![];
    for start in ["0", "1", "2", "3", "inf"] {
        let total = 3usize.pow(depth as u32);
        for code in 0..total {
            let mut c = code;
            let mut ops = vec![];
            for _ in 0..depth {
                ops.push(["a", "d", "c"][c % 3]);
                c /= 3;
            }
            let mut r = if start == "inf" { Repeat::infinite() } else { Repeat::finite(start.parse().unwrap()) };
            let mut obs: Vec<String> = vec![];
            let mut dead = false;
            for op in &ops {
                if dead {
                    break;
                }
                match *op {
                    "a" => match quiet(|| r.again()) {
                        Ok(b) => obs.push(b.to_string()),
                        Err(_) => {
                            obs.push("panic".into());
                            dead = true;
                        }
                    },
                    "d" => obs.push(r.done().to_string()),
                    _ => obs.push(r.count().to_string()),
                }
            }
            out.push(format!("repeat {start} ; {}\t{}", ops.join(" ; "), obs.join(" ")));
        }
    }
    out
}

/// Drain a source completely through a one-page stream with a random schedule.
/// Returns (samples, eof seen, calls after eof that produced, panicked).
fn run_source<T: crate::ring::Elem>(
    mut b: Box<dyn Block>,
    o: ReadStream<T>,
    rng: &mut Rng,
    max_samples: usize,
) -> (Vec<u64>, bool, bool, Option<String>) {
    let mut got: Vec<u64> = vec![];
    let mut eof = false;
    let mut late = false;
    let mut idle = 0;
    for _ in 0..200_000 {
        let work = rng.chance(2, 3);
        if work {
            let before = o.read_buf().unwrap().0.len();
            let r = quiet(|| match b.work() {
                Ok(BlockRet::EOF) => 1,
                Ok(_) => 0,
                Err(_) => 2,
            });
            match r {
                Err(p) => return (got, eof, late, Some(p)),
                Ok(2) => return (got, eof, late, Some("error".into())),
                Ok(1) => {
                    eof = true;
                }
                Ok(_) => {
                    if eof {
                        late = true;
                    }
                }
            }
            let after = o.read_buf().unwrap().0.len();
            if eof && after > before && r == Ok(0) {
                late = true;
            }
            if after == before {
                idle += 1;
            } else {
                idle = 0;
            }
        } else {
            let (rb, _) = o.read_buf().unwrap();
            let k = (*rng.pick(&[1usize, 3, 100, 5000])).min(rb.len());
            got.extend(rb.slice()[..k].iter().map(|v| v.to_nat() as u64));
            rb.consume(k);
        }
        if got.len() >= max_samples {
            break;
        }
        if eof && idle > 3 && o.read_buf().unwrap().0.is_empty() {
            break;
        }
    }
    (got, eof, late, None)
}

fn check_repeated(name: &str, detail: &str, data: &[u64], rep: u64, got: &[u64], eof: bool, late: bool, panic: Option<String>) -> String {
    let verdict = if let Some(p) = panic {
        format!("FAIL panicked/failed: {}", p.replace(['\t', '\n'], " "))
    } else if rep == INF && data.is_empty() {
        // nothing to repeat: EOF (VectorSource, SigMFSource) and "never anything" are both fine
        if got.is_empty() { "pass".to_string() } else { "FAIL output from an empty source".to_string() }
    } else if rep == INF {
        if eof {
            "FAIL infinite repeat reported EOF".to_string()
        } else if !data.is_empty() && !got.iter().enumerate().all(|(i, v)| *v == data[i % data.len()]) {
            "FAIL infinite repeat emitted something else than the data repeated".to_string()
        } else {
            "pass".to_string()
        }
    } else {
        let want: Vec<u64> = (0..rep).flat_map(|_| data.iter().copied()).collect();
        if got != want {
            format!("FAIL emitted {} samples, expected {} (= {} x {})", got.len(), want.len(), rep, data.len())
        } else if !eof {
            "FAIL everything emitted but no EOF".to_string()
        } else if late {
            "FAIL produced after EOF".to_string()
        } else {
            "pass".to_string()
        }
    };
    format!("!src {name} {detail}\t{verdict}")
}

fn file_case(rng: &mut Rng, idx: usize, dir: &std::path::Path) -> String {
    let rep = *rng.pick(&[0u64, 1, 1, 2, 3, INF]);
    let len = *rng.pick(&[0usize, 1, 2, 5, 100, 1023, 1024, 1025, 2500]);
    let data: Vec<u64> = gen_data(len, rng.next() >> 8, 1 << 32, &[]);
    let path = dir.join(format!("src{idx}.bin"));
    let mut f = std::fs::File::create(&path).unwrap();
    for v in &data {
        f.write_all(&(*v as u32).to_le_bytes()).unwrap();
    }
    // a file may end in the middle of a sample: the stray bytes are not a sample, in any repetition
    let stray = if rng.chance(1, 3) { rng.range(1, 3) } else { 0 };
    f.write_all(&vec![0xEEu8; stray]).unwrap();
    drop(f);
    let (mut b, o) = FileSource::<u32>::new(&path).unwrap();
    b.repeat(repeat_of(rep));
    let (got, eof, late, panic) = run_source::<u32>(Box::new(b), o, rng, if rep == INF { 3 * len.max(1) + 10 } else { usize::MAX });
    check_repeated("file", &format!("#{idx} len={len} stray={stray} repeat={rep}"), &data, rep, &got, eof, late, panic)
}

fn sigmf_case(rng: &mut Rng, idx: usize, dir: &std::path::Path) -> String {
    let rep = *rng.pick(&[0u64, 1, 1, 2, 3, INF]);
    let len = *rng.pick(&[0usize, 1, 2, 5, 100, 1023, 1024, 1025, 2500]);
    let data: Vec<u64> = gen_data(len, rng.next() >> 8, 256, &[]);
    let base = dir.join(format!("rec{idx}"));
    let mut f = std::fs::File::create(dir.join(format!("rec{idx}-data"))).unwrap();
    for v in &data {
        f.write_all(&[*v as u8]).unwrap();
    }
    drop(f);
    std::fs::write(
        dir.join(format!("rec{idx}-meta")),
        r#"{"global": {"core:datatype": "ru8_le", "core:version": "1.1.0"}, "captures": [], "annotations": []}"#,
    )
    .unwrap();
    let built = quiet(|| {
        SigMFSourceBuilder::<u8>::new(base.clone()).repeat(repeat_of(rep)).build()
    });
    let (b, o) = match built {
        Ok(Ok(x)) => x,
        Ok(Err(e)) => return format!("!src sigmf #{idx} len={len} repeat={rep}\tFAIL cannot open: {e}"),
        Err(p) => return format!("!src sigmf #{idx} len={len} repeat={rep}\tFAIL panic in build: {p}"),
    };
    let (got, eof, late, panic) = run_source::<u8>(Box::new(b), o, rng, if rep == INF { 3 * len.max(1) + 10 } else { usize::MAX });
    check_repeated("sigmf", &format!("#{idx} len={len} repeat={rep}"), &data, rep, &got, eof, late, panic)
}

/// SigMF *archive* (tar: the data member sits at a non-zero offset) with repetition.
fn sigmf_archive_case(rng: &mut Rng, idx: usize, dir: &std::path::Path) -> String {
    let rep = *rng.pick(&[0u64, 1, 2, 2, 3, INF]);
    let len = *rng.pick(&[0usize, 1, 5, 100, 1023, 1025, 2500, 5000]);
    let data: Vec<u64> = gen_data(len, rng.next() >> 8, 256, &[]);
    let databytes: Vec<u8> = data.iter().map(|v| *v as u8).collect();
    let meta = br#"{"global": {"core:datatype": "ru8_le", "core:version": "1.1.0"}, "captures": [], "annotations": []}"#.to_vec();
    let mut members: Vec<(String, Vec<u8>)> = vec![];
    for k in 0..rng.range(0, 2) {
        members.push((format!("notes{k}.txt"), (0..rng.range(0, 1500)).map(|_| rng.below(256) as u8).collect()));
    }
    members.push(("rec.sigmf-meta".to_string(), meta));
    members.push(("rec.sigmf-data".to_string(), databytes));
    if rng.chance(1, 2) {
        let j = 1.min(members.len() - 1);
        members.swap(0, j);
    }
    let path = dir.join(format!("arch{idx}.sigmf"));
    {
        let f = std::fs::File::create(&path).unwrap();
        let mut b = tar::Builder::new(f);
        for (name, content) in &members {
            let mut h = tar::Header::new_gnu();
            h.set_size(content.len() as u64);
            h.set_mode(0o644);
            h.set_cksum();
            b.append_data(&mut h, name, &content[..]).unwrap();
        }
        b.finish().unwrap();
    }
    let built = quiet(|| SigMFSourceBuilder::<u8>::new(path.clone()).repeat(repeat_of(rep)).build());
    let (b, o) = match built {
        Ok(Ok(x)) => x,
        Ok(Err(e)) => return format!("!src sigmf-archive #{idx} len={len} repeat={rep}\tFAIL cannot open: {e}"),
        Err(p) => return format!("!src sigmf-archive #{idx} len={len} repeat={rep}\tFAIL panic in build: {p}"),
    };
    let (got, eof, late, panic) = run_source::<u8>(Box::new(b), o, rng, if rep == INF { 3 * len.max(1) + 10 } else { usize::MAX });
    check_repeated("sigmf-archive", &format!("#{idx} len={len} repeat={rep}"), &data, rep, &got, eof, late, panic)
}

/// SigMF recording of f32 samples that ends in the middle of a sample.
fn sigmf_f32_case(rng: &mut Rng, idx: usize, dir: &std::path::Path) -> String {
    let rep = *rng.pick(&[0u64, 1, 1, 2, 3, INF]);
    let len = *rng.pick(&[0usize, 1, 5, 100, 1023, 1025, 2500]);
    let stray = rng.below(4);
    let data: Vec<u64> = (0..len).map(|_| ((rng.below(2001) as f32 - 1000.0) / 8.0).to_bits() as u64).collect();
    let base = dir.join(format!("recf{idx}"));
    let mut f = std::fs::File::create(dir.join(format!("recf{idx}-data"))).unwrap();
    for v in &data {
        f.write_all(&(*v as u32).to_le_bytes()).unwrap();
    }
    f.write_all(&vec![0xEEu8; stray]).unwrap();
    drop(f);
    std::fs::write(
        dir.join(format!("recf{idx}-meta")),
        r#"{"global": {"core:datatype": "rf32_le", "core:version": "1.1.0"}, "captures": [], "annotations": []}"#,
    )
    .unwrap();
    let label = format!("#{idx} len={len} stray={stray} repeat={rep}");
    let built = quiet(|| SigMFSourceBuilder::<f32>::new(base.clone()).repeat(repeat_of(rep)).build());
    let (b, o) = match built {
        Ok(Ok(x)) => x,
        Ok(Err(e)) => return format!("!src sigmf-f32 {label}\tFAIL cannot open: {e}"),
        Err(p) => return format!("!src sigmf-f32 {label}\tFAIL panic in build: {p}"),
    };
    let (got, eof, late, panic) = run_source::<f32>(Box::new(b), o, rng, if rep == INF { 3 * len.max(1) + 10 } else { usize::MAX });
    check_repeated("sigmf-f32", &label, &data, rep, &got, eof, late, panic)
}

pub fn run(args: &[String]) -> Vec<String> {
    let seed = arg_usize(args, "--seed", 1) as u64;
    let cases = arg_usize(args, "--cases", 300);
    let files = arg_usize(args, "--files", 60);
    let depth = arg_usize(args, "--depth", 5);
    let mut rng = Rng::new(seed);
    rustradio::verif::set_stream_size(4096);
    let mut out = repeat_lines(depth);
    for _ in 0..cases {
        let mut r = rng.fork();
        out.push(vsrc_case(&mut r));
    }
    let dir = tempfile::tempdir().unwrap();
    for i in 0..files {
        let mut r = rng.fork();
        out.push(file_case(&mut r, i, dir.path()));
        let mut r = rng.fork();
        out.push(sigmf_case(&mut r, i, dir.path()));
        let mut r = rng.fork();
        out.push(sigmf_archive_case(&mut r, i, dir.path()));
        let mut r = rng.fork();
        out.push(sigmf_f32_case(&mut r, i, dir.path()));
        for k in 0..3 {
            let mut r = rng.fork();
            out.push(fsrc_case(&mut r, 3 * i + k, dir.path()));
            let mut r = rng.fork();
            out.push(sgsrc_case(&mut r, 3 * i + k, dir.path()));
        }
    }
    out
}
