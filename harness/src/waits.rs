//! C04: end-of-stream decisions on the real streams.
//!
//! * `wait …` lines: sequential grid, answered by the Lean model.
//! * `!race …` lines: deterministic replays of the schedules the Lean model
//!   uses as (counter)examples, driven on real threads through the
//!   `verif::point` hook. Self-checking: observed must be `pass`.
use crate::common::*;
use rustradio::stream::{StreamWait, new_nocopy_stream, new_stream};
use rustradio::verif;
use std::sync::mpsc;
use std::sync::{Arc, Mutex};
use std::time::Duration;

fn small_stream<T>() -> (rustradio::stream::WriteStream<T>, rustradio::stream::ReadStream<T>) {
    verif::set_stream_size(4096);
    let r = new_stream::<T>();
    verif::set_stream_size(0);
    r
}

fn fill(w: &rustradio::stream::WriteStream<u8>, n: usize, base: u8) {
    if n == 0 {
        return;
    }
    let mut wb = w.write_buf().unwrap();
    for i in 0..n {
        wb.slice()[i] = base.wrapping_add(i as u8);
    }
    wb.produce(n, &[]);
}

/// Block the calling thread at `point_id` (first hit in `thread`), tell the
/// controller, and continue when released (or after 2 s).
struct Gate {
    reached: mpsc::Receiver<()>,
    release: mpsc::Sender<()>,
}

fn install_gate(point_id: u32, thread: std::thread::ThreadId) -> Gate {
    let (tx_reached, rx_reached) = mpsc::channel::<()>();
    let (tx_release, rx_release) = mpsc::channel::<()>();
    let rx_release = Mutex::new(rx_release);
    let tx_reached = Mutex::new(tx_reached);
    let fired = std::sync::atomic::AtomicBool::new(false);
    verif::set_callback(Some(Arc::new(move |id, _a, _b| {
        if id == point_id
            && std::thread::current().id() == thread
            && !fired.swap(true, std::sync::atomic::Ordering::SeqCst)
        {
            let _ = tx_reached.lock().unwrap().send(());
            let _ = rx_release.lock().unwrap().recv_timeout(Duration::from_secs(2));
        }
    })));
    Gate {
        reached: rx_reached,
        release: tx_release,
    }
}

/// Run `decide` on its own thread, stopping it at `point_id`; while it is
/// stopped run `peer`; then let it finish. Returns the decision.
pub fn race(
    point_id: u32,
    decide: impl FnOnce() -> bool + Send + 'static,
    peer: impl FnOnce(),
) -> (bool, bool) {
    let (tx_id, rx_id) = mpsc::channel();
    let (tx_go, rx_go) = mpsc::channel::<()>();
    let th = std::thread::spawn(move || {
        tx_id.send(std::thread::current().id()).unwrap();
        rx_go.recv().unwrap();
        decide()
    });
    let tid = rx_id.recv().unwrap();
    let gate = install_gate(point_id, tid);
    tx_go.send(()).unwrap();
    // The decider may never reach the point (e.g. it decides early): then the
    // peer simply runs concurrently after a grace period.
    let reached = gate.reached.recv_timeout(Duration::from_millis(400)).is_ok();
    peer();
    let _ = gate.release.send(());
    let v = th.join().unwrap();
    verif::set_callback(None);
    (v, reached)
}

fn verdict_line(name: &str, detail: &str, ok: bool, got: &str) -> String {
    format!(
        "!race {name} {detail}\t{}",
        if ok { "pass".to_string() } else { format!("FAIL {got}") }
    )
}

pub fn run(args: &[String]) -> Vec<String> {
    let seed = arg_usize(args, "--seed", 1) as u64;
    let races = arg_usize(args, "--races", 6);
    let mut rng = Rng::new(seed);
    let mut out = Vec::new();
    // every wait()/eof() call ends by itself (100 ms time-outs): a call that never returns is a finding
    let _wd = deadline(120 + 5 * races as u64, "waits: a wait()/eof() call on a real stream never returned (waits must time out)".to_string());

    // ---- sequential grid: verdict of one completed call in a quiescent state.
    for used in [0usize, 1, 2, 5, 4095, 4096] {
        for need in [0usize, 1, 2, 3, 6, 4096, 4097] {
            for alive in [true, false] {
                if !alive && used < need {
                    // (kept: the arrival case, one call must say true)
                }
                if alive && used < need && need > 0 {
                    // a real wait would block 100 ms: keep a few of them only
                    if !(used == 0 && need == 1) && !(used == 5 && need == 6) {
                        continue;
                    }
                }
                // reader side
                let (w, r) = small_stream::<u8>();
                fill(&w, used, 1);
                let mut keep = Some(w);
                if !alive {
                    keep = None;
                }
                let v = r.wait(need);
                let e = r.eof();
                let intact = {
                    let (rb, _) = r.read_buf().unwrap();
                    rb.len() == used && rb.slice().iter().enumerate().all(|(i, x)| *x == 1u8.wrapping_add(i as u8))
                };
                out.push(format!(
                    "wait reader {used} {need} {}\t{v} eof={e} intact={intact}",
                    alive as u8
                ));
                drop(keep);
                // writer side: free = 4096 - used
                let (w, r) = small_stream::<u8>();
                fill(&w, used, 1);
                let free = 4096 - used;
                if alive && free < need {
                    continue;
                }
                let mut keepr = Some(r);
                if !alive {
                    keepr = None;
                }
                let v = w.wait(need);
                out.push(format!("wait writer {free} {need} {}\t{v}", alive as u8));
                drop(keepr);
            }
        }
    }
    // the same decisions on a stream of 4-byte samples (capacity 1024): amounts are samples, never bytes
    for used in [0usize, 3, 1021, 1023, 1024] {
        for need in [1usize, 2, 4, 10, 12, 1024, 1025] {
            // reader gone / writer gone only (no blocking waits)
            {
                let (w, r) = small_stream::<u32>();
                if used > 0 {
                    let mut wb = w.write_buf().unwrap();
                    for i in 0..used {
                        wb.slice()[i] = i as u32;
                    }
                    wb.produce(used, &[]);
                }
                let free = 1024 - used;
                drop(r);
                let v = w.wait(need);
                out.push(format!("wait writer {free} {need} 0\t{v}"));
            }
            {
                let (w, r) = small_stream::<u32>();
                if used > 0 {
                    let mut wb = w.write_buf().unwrap();
                    for i in 0..used {
                        wb.slice()[i] = i as u32;
                    }
                    wb.produce(used, &[]);
                }
                drop(w);
                let v = r.wait(need);
                let e = r.eof();
                let intact = {
                    let (rb, _) = r.read_buf().unwrap();
                    rb.len() == used && rb.slice().iter().enumerate().all(|(i, x)| *x == i as u32)
                };
                out.push(format!("wait reader {used} {need} 0\t{v} eof={e} intact={intact}"));
            }
        }
    }
    // ---- sequences of waits on ONE stream: a verdict is a function of the present state (samples queued, request,
    // writer alive), never of an earlier verdict. The same handle is asked again with other amounts after the
    // writer has gone (a "never" for 10 samples says nothing about a request for the 3 that are there), and
    // between consumes. No blocking calls: with the writer alive only satisfiable requests are made.
    for case in 0..24 {
        let (w, r) = small_stream::<u8>();
        let mut keep = Some(w);
        let mut used = 0usize;
        let mut first = 1u8; // value of the oldest unread sample
        let mut next = 1u8; // value the writer commits next
        let steps = 6 + rng.below(10);
        for step in 0..steps {
            let alive = keep.is_some();
            let op = if !alive || case % 3 == 0 { 3 + rng.below(3) } else { rng.below(6) };
            match op {
                0 | 1 if alive => {
                    let n = rng.range(0, 6);
                    fill(keep.as_ref().unwrap(), n, next);
                    used += n;
                    next = next.wrapping_add(n as u8);
                }
                2 if alive && step >= 1 => keep = None,
                3 if used > 0 => {
                    let c = rng.range(0, used.min(3));
                    let (rb, _) = r.read_buf().unwrap();
                    rb.consume(c);
                    used -= c;
                    first = first.wrapping_add(c as u8);
                }
                _ => {
                    let need = *rng.pick(&[0usize, 1, 2, 3, used, used + 1, used.saturating_sub(1), used + 7, 4097]);
                    if alive && used < need {
                        continue;
                    }
                    let v = r.wait(need);
                    let e = r.eof();
                    let intact = {
                        let (rb, _) = r.read_buf().unwrap();
                        rb.len() == used && rb.slice().iter().enumerate().all(|(i, x)| *x == first.wrapping_add(i as u8))
                    };
                    out.push(format!("wait reader {used} {need} {}\t{v} eof={e} intact={intact}", alive as u8));
                }
            }
        }
        // the closing pair that every case ends with: too much, then exactly what is there
        drop(keep.take());
        for need in [used + 1, used, used.min(1)] {
            let v = r.wait(need);
            let e = r.eof();
            out.push(format!("wait reader {used} {need} 0\t{v} eof={e} intact=true"));
        }
    }
    // packet streams
    for qlen in [0usize, 1, 3] {
        for need in [0usize, 1, 2, 4] {
            for alive in [true, false] {
                if alive && qlen < need && !(qlen == 0 && need == 1) {
                    continue;
                }
                let (w, r) = new_nocopy_stream::<Vec<u8>>();
                for i in 0..qlen {
                    w.push(vec![i as u8], &[]);
                }
                let wv = w.wait(need);
                let mut keep = Some(w);
                if !alive {
                    keep = None;
                }
                let v = r.wait(need);
                let e = r.eof();
                let mut n = 0;
                while let Some((p, _)) = r.pop() {
                    assert_eq!(p, vec![n as u8]);
                    n += 1;
                }
                out.push(format!(
                    "wait ncreader {qlen} {need} {}\t{v} eof={e} intact={}",
                    alive as u8,
                    n == qlen
                ));
                drop(keep);
                out.push(format!("wait ncwriter_alive_reader {need}\t{wv}"));
            }
        }
    }
    {
        let (w, r) = new_nocopy_stream::<Vec<u8>>();
        drop(r);
        out.push(format!("wait ncwriter_dead_reader 1\t{}", w.wait(1)));
    }

    // ---- races (the Lean witness schedule on real threads)
    for i in 0..races {
        let used = *rng.pick(&[0usize, 1, 3, 100]);
        let extra = rng.range(1, 50);
        let need = used + rng.range(1, extra);
        // R1: reader wait; between its amount read and its return, the writer
        // commits enough and goes away. `true` would strand committed data.
        {
            let (w, r) = small_stream::<u8>();
            fill(&w, used, 1);
            let r = Arc::new(r);
            let r2 = r.clone();
            let (v, reached) = race(
                verif::pt::WAIT_READ_RETURN,
                move || r2.wait(need),
                move || {
                    fill(&w, extra, 77);
                    drop(w);
                },
            );
            let avail = r.read_buf().unwrap().0.len();
            let ok = !(v && avail >= need);
            out.push(verdict_line(
                "reader_wait",
                &format!("#{i} used={used} commit={extra} need={need} stopped={reached}"),
                ok,
                &format!("wait({need}) said true with {avail} samples readable"),
            ));
            // arrival: after the writer is gone and the rest is insufficient, one more wait says true.
            let avail = r.read_buf().unwrap().0.len();
            let v2 = r.wait(avail + 1);
            out.push(verdict_line(
                "reader_arrival",
                &format!("#{i} avail={avail}"),
                v2,
                "wait(avail+1) with the writer gone said false",
            ));
        }
        // R2: ReadStream::eof with the writer committing + leaving while eof() is between its reads.
        {
            let (w, r) = small_stream::<u8>();
            let r = Arc::new(r);
            let r2 = r.clone();
            let (v, reached) = race(
                verif::pt::READ_BUF_RETURN,
                move || r2.eof(),
                move || {
                    fill(&w, extra, 9);
                    drop(w);
                },
            );
            let avail = r.read_buf().unwrap().0.len();
            out.push(verdict_line(
                "reader_eof",
                &format!("#{i} commit={extra} stopped={reached}"),
                !(v && avail > 0),
                &format!("eof() said true with {avail} samples readable"),
            ));
            out.push(verdict_line("reader_eof_arrival", &format!("#{i}"), {
                let (rb, _) = r.read_buf().unwrap();
                let n = rb.len();
                rb.consume(n);
                r.eof()
            }, "eof() false although writer gone and drained"));
        }
        // R3: NCReadStream::eof, writer pushes its last packet and leaves in between.
        {
            let (w, r) = new_nocopy_stream::<Vec<u8>>();
            let r = Arc::new(r);
            let r2 = r.clone();
            let (v, reached) = race(
                verif::pt::NC_EOF_AFTER_EMPTY,
                move || r2.eof(),
                move || {
                    w.push(vec![1, 2, 3], &[]);
                    drop(w);
                },
            );
            let left = r.pop().is_some();
            out.push(verdict_line(
                "nc_eof",
                &format!("#{i} stopped={reached}"),
                !(v && left),
                "NCReadStream::eof() said true with a packet still queued",
            ));
            out.push(verdict_line("nc_eof_arrival", &format!("#{i}"), r.eof(), "eof() false although writer gone and drained"));
        }
        // R4: NCReadStream::wait: same schedule; the hook cannot get between the two reads (lock held),
        // so the peer acts right after; the verdict must still be consistent.
        {
            let (w, r) = new_nocopy_stream::<Vec<u8>>();
            let r = Arc::new(r);
            let r2 = r.clone();
            let (v, _) = race(
                verif::pt::NC_EOF_AFTER_EMPTY,
                move || r2.wait(1),
                move || {
                    w.push(vec![1], &[]);
                    drop(w);
                },
            );
            let left = r.pop().is_some();
            out.push(verdict_line("nc_wait", &format!("#{i}"), !(v && left), "NCReadStream::wait(1) said true with a packet queued"));
            out.push(verdict_line("nc_wait_arrival", &format!("#{i}"), r.wait(1), "wait(1) false although writer gone and drained"));
        }
        // R5: writer wait: `true` only if the reader is gone.
        {
            let (w, r) = small_stream::<u8>();
            fill(&w, 4096, 0);
            let w = Arc::new(w);
            let w2 = w.clone();
            let gone = rng.chance(1, 2);
            let (v, reached) = race(
                verif::pt::WAIT_WRITE_RETURN,
                move || w2.wait(10),
                move || {
                    let (rb, _) = r.read_buf().unwrap();
                    rb.consume(5);
                    if gone {
                        drop(r);
                    } else {
                        std::mem::forget(r);
                    }
                },
            );
            out.push(verdict_line(
                "writer_wait",
                &format!("#{i} reader_gone={gone} stopped={reached}"),
                !v || gone,
                "writer wait said true while the reader is alive",
            ));
            if gone {
                out.push(verdict_line("writer_arrival", &format!("#{i}"), w.wait(10), "writer wait false although reader gone and space short"));
            }
        }
    }
    out
}
