//! C03: producer/consumer sharing one real stream.
//!
//! * `conc …` lines: random interleavings of the two sides' steps with windows
//!   held across the other side's steps (single OS thread: each step is one
//!   critical section or one cell access, exactly the model's step), answered
//!   by the Lean model.
//! * `!stress …` lines: two real threads running free; the consumer checks the
//!   committed counter sequence and that live windows never overlap.
use crate::common::*;
use rustradio::circular_buffer::{BufferReader, BufferWriter};
use rustradio::stream::new_stream;
use rustradio::verif;
use std::sync::Arc;
use std::sync::atomic::{AtomicBool, AtomicU64, AtomicUsize, Ordering};

fn interleaving(rng: &mut Rng, max_steps: usize) -> (String, String) {
    verif::set_stream_size(4096);
    let (w, r) = new_stream::<u32>();
    verif::set_stream_size(0);
    let cap = 1024usize;
    let mut req = format!("conc {cap}");
    let mut obs = Vec::new();
    let mut wb: Option<BufferWriter<u32>> = None;
    let mut rb: Option<BufferReader<u32>> = None;
    let mut next: u32 = rng.next() as u32;
    // pre-advance near the wrap point
    if rng.chance(2, 3) {
        let target = cap - rng.range(0, 5);
        let mut b = w.write_buf().unwrap();
        req += " ; aw";
        obs.push("-".to_string());
        for i in 0..3.min(target) {
            b.slice()[i] = next;
            req += &format!(" ; put {i} {next}");
            obs.push("-".into());
            next = next.wrapping_add(1);
        }
        b.produce(target, &[]);
        req += &format!(" ; co {target}");
        obs.push("-".into());
        let (b, _) = r.read_buf().unwrap();
        req += " ; ar";
        obs.push("-".into());
        b.consume(target);
        req += &format!(" ; cs {target}");
        obs.push("-".into());
    }
    let n = rng.range(1, max_steps);
    for _ in 0..n {
        match rng.below(8) {
            0 | 1 => {
                if wb.is_none() {
                    wb = Some(w.write_buf().unwrap());
                    req += " ; aw";
                    obs.push("-".into());
                } else if let Some(mut b) = wb.take() {
                    // a few puts then commit
                    let len = b.len();
                    let k = len.min(rng.range(0, 6));
                    for i in 0..k {
                        b.slice()[i] = next;
                        req += &format!(" ; put {i} {next}");
                        obs.push("-".into());
                        next = next.wrapping_add(1);
                    }
                    let nn = if rng.chance(1, 4) { rng.range(0, k) } else { k };
                    b.produce(nn, &[]);
                    req += &format!(" ; co {nn}");
                    obs.push("-".into());
                }
            }
            2 => {
                if let Some(b) = wb.as_mut() {
                    let len = b.len();
                    if len > 0 {
                        let i = match rng.below(3) {
                            0 => len - 1,
                            1 => 0,
                            _ => rng.below(len),
                        };
                        b.slice()[i] = next;
                        req += &format!(" ; put {i} {next}");
                        obs.push("-".into());
                        next = next.wrapping_add(1);
                    }
                }
            }
            3 | 4 => {
                if rb.is_none() {
                    rb = Some(r.read_buf().unwrap().0);
                    req += " ; ar";
                    obs.push("-".into());
                } else if let Some(b) = rb.take() {
                    let len = b.len();
                    let m = match rng.below(4) {
                        0 => 0,
                        1 => len,
                        _ => rng.range(0, len),
                    };
                    b.consume(m);
                    req += &format!(" ; cs {m}");
                    obs.push("-".into());
                }
            }
            5 | 6 => {
                if let Some(b) = rb.as_ref() {
                    let len = b.len();
                    if len > 0 {
                        let j = match rng.below(3) {
                            0 => len - 1,
                            1 => 0,
                            _ => rng.below(len),
                        };
                        let v = b.slice()[j];
                        req += &format!(" ; get {j}");
                        obs.push(format!("v {v}"));
                    }
                }
            }
            _ => {
                let free = w.free();
                req += " ; pk";
                obs.push(format!("counts {} {}", cap - free, free));
            }
        }
    }
    (req, obs.join(" ; "))
}

/// Two real threads, free running.
fn stress(seed: u64, total: u64, tagged: bool) -> String {
    verif::set_stream_size(4096);
    let (w, r) = new_stream::<u64>();
    verif::set_stream_size(0);
    let cap = 512usize;
    let base = {
        let mut b = w.write_buf().unwrap();
        b.slice().as_ptr() as usize
    };
    // live window ranges (byte offsets modulo buffer size), published by each side
    let wwin = Arc::new((AtomicUsize::new(usize::MAX), AtomicUsize::new(0)));
    let rwin = Arc::new((AtomicUsize::new(usize::MAX), AtomicUsize::new(0)));
    let bad = Arc::new(AtomicBool::new(false));
    let overlap = move |a: (usize, usize), b: (usize, usize)| -> bool {
        // ranges in cells modulo cap
        if a.0 == usize::MAX || b.0 == usize::MAX {
            return false;
        }
        for i in 0..a.1 {
            let c = (a.0 + i) % cap;
            let off = (c + cap - b.0) % cap;
            if off < b.1 {
                return true;
            }
        }
        false
    };
    let produced = Arc::new(AtomicU64::new(0));
    let stop = Arc::new(AtomicBool::new(false));
    let _wd = deadline(120, format!("stress seed={seed} total={total} tagged={tagged}: two free-running threads on one stream"));
    let th = {
        let stop = stop.clone();
        let wwin = wwin.clone();
        let rwin = rwin.clone();
        let bad = bad.clone();
        let produced = produced.clone();
        std::thread::spawn(move || {
            let mut rng = Rng::new(seed);
            let mut next = 0u64;
            while next < total && !stop.load(Ordering::SeqCst) {
                let mut b = w.write_buf().unwrap();
                let len = b.len();
                if len == 0 {
                    drop(b);
                    let _ = w.wait_for_write(1);
                    continue;
                }
                let start = (b.slice().as_ptr() as usize - base) / 8 % cap;
                let k = len.min(if tagged { rng.range(1, 40) } else { rng.range(1, 700) }).min((total - next) as usize);
                wwin.1.store(k, Ordering::SeqCst);
                wwin.0.store(start, Ordering::SeqCst);
                let rw = (rwin.0.load(Ordering::SeqCst), rwin.1.load(Ordering::SeqCst));
                if overlap((start, k), rw) && rwin.0.load(Ordering::SeqCst) == rw.0 {
                    bad.store(true, Ordering::SeqCst);
                }
                for i in 0..k {
                    b.slice()[i] = next + i as u64;
                }
                wwin.0.store(usize::MAX, Ordering::SeqCst);
                if tagged {
                    // tags with long string values: whatever produce() does with them takes time
                    let tags: Vec<rustradio::stream::Tag> = (0..3)
                        .map(|j| {
                            rustradio::stream::Tag::new(
                                (j * 7) % k,
                                format!("k{j}"),
                                rustradio::stream::TagValue::String("x".repeat(300)),
                            )
                        })
                        .collect();
                    b.produce(k, &tags);
                } else {
                    b.produce(k, &[]);
                }
                next += k as u64;
                produced.store(next, Ordering::SeqCst);
            }
        })
    };
    let mut rng = Rng::new(seed ^ 0xABCD);
    let mut expect = 0u64;
    let mut err = String::new();
    let mut spins = 0u64;
    while expect < total && err.is_empty() {
        let (b, _) = r.read_buf().unwrap();
        let len = b.len();
        if len == 0 {
            drop(b);
            if r.wait_for_read(1) {
                err = format!("wait_for_read(1) said never at {expect} of {total}");
            }
            spins += 1;
            if spins > 10_000_000 {
                err = "stuck".into();
            }
            continue;
        }
        let start = (b.slice().as_ptr() as usize - base) / 8 % cap;
        rwin.1.store(len, Ordering::SeqCst);
        rwin.0.store(start, Ordering::SeqCst);
        let ww = (wwin.0.load(Ordering::SeqCst), wwin.1.load(Ordering::SeqCst));
        if overlap((start, len), ww) && wwin.0.load(Ordering::SeqCst) == ww.0 {
            bad.store(true, Ordering::SeqCst);
        }
        let committed = produced.load(Ordering::SeqCst);
        let _ = committed;
        for (i, v) in b.slice().iter().enumerate() {
            if *v != expect + i as u64 {
                err = format!("sample {} is {} (torn/stale/duplicated/skipped)", expect + i as u64, v);
                break;
            }
        }
        let m = if rng.chance(1, 5) { rng.range(0, len) } else { len };
        rwin.0.store(usize::MAX, Ordering::SeqCst);
        b.consume(m);
        expect += m as u64;
    }
    // the reader is done (or gave up): release a writer that waits for room
    stop.store(true, Ordering::SeqCst);
    th.join().unwrap();
    if bad.load(Ordering::SeqCst) {
        err = "a live write window overlapped a live read window".into();
    }
    format!(
        "!stress seed={seed} total={total} tagged={tagged}\t{}",
        if err.is_empty() { "pass".to_string() } else { format!("FAIL {err}") }
    )
}

/// C02 under concurrency: the writer tags sample `v` with key "a" iff v % 5 == 0 and with key "b" iff
/// v % 7 == 3 (so the first sample of many commits carries a tag), value = v. Every window the reader
/// takes must report exactly the tags of its own samples: each once, inside the window, on its sample,
/// none missing — while the writer keeps committing.
fn tag_stress(seed: u64, total: u64) -> String {
    use rustradio::stream::{Tag, TagValue};
    verif::set_stream_size(4096);
    let (w, r) = new_stream::<u64>();
    verif::set_stream_size(0);
    let stop = Arc::new(AtomicBool::new(false));
    let _wd = deadline(120, format!("tag stress seed={seed} total={total}: two free-running threads on one stream"));
    let th = {
        let stop = stop.clone();
        std::thread::spawn(move || {
            let mut rng = Rng::new(seed);
            let mut next = 0u64;
            while next < total && !stop.load(Ordering::SeqCst) {
                let mut b = w.write_buf().unwrap();
                let len = b.len();
                if len == 0 {
                    drop(b);
                    let _ = w.wait_for_write(1);
                    continue;
                }
                let k = len.min(if rng.chance(1, 8) { rng.range(1, 40) } else { rng.range(1, 3) }).min((total - next) as usize);
                let mut tags = vec![];
                for i in 0..k {
                    let v = next + i as u64;
                    b.slice()[i] = v;
                    if v % 5 == 0 {
                        tags.push(Tag::new(i, "a", TagValue::U64(v)));
                    }
                    if v % 7 == 3 {
                        tags.push(Tag::new(i, "b", TagValue::U64(v)));
                    }
                }
                b.produce(k, &tags);
                next += k as u64;
            }
        })
    };
    let mut rng = Rng::new(seed ^ 0x7A65);
    let mut expect = 0u64;
    let mut err = String::new();
    let mut spins = 0u64;
    while expect < total && err.is_empty() {
        let (b, tags) = r.read_buf().unwrap();
        let len = b.len();
        if len == 0 {
            drop(b);
            if r.wait_for_read(1) {
                err = format!("wait_for_read(1) said never at {expect} of {total}");
            }
            spins += 1;
            if spins > 10_000_000 {
                err = "stuck".into();
            }
            continue;
        }
        let mut want: Vec<(usize, &str, u64)> = vec![];
        for i in 0..len {
            let v = expect + i as u64;
            if v % 5 == 0 {
                want.push((i, "a", v));
            }
            if v % 7 == 3 {
                want.push((i, "b", v));
            }
        }
        let got: Vec<(usize, String, u64)> = tags
            .iter()
            .map(|t| (t.pos(), t.key().to_string(), match t.val() { TagValue::U64(v) => *v, _ => u64::MAX }))
            .collect();
        let same = got.len() == want.len() && got.iter().zip(&want).all(|(g, w)| g.0 == w.0 && g.1 == w.1 && g.2 == w.2);
        if !same {
            let extra: Vec<_> = got.iter().filter(|g| !want.iter().any(|w| g.0 == w.0 && g.1 == w.1 && g.2 == w.2)).take(2).collect();
            let missing: Vec<_> = want.iter().filter(|w| !got.iter().any(|g| g.0 == w.0 && g.1 == w.1 && g.2 == w.2)).take(2).collect();
            err = format!(
                "window of {len} samples starting at sample {expect}: {} tags reported, {} expected; not expected {extra:?}, missing {missing:?}",
                got.len(),
                want.len()
            );
            break;
        }
        let m = if rng.chance(1, 4) { rng.range(0, len) } else { len };
        b.consume(m);
        expect += m as u64;
    }
    stop.store(true, Ordering::SeqCst);
    th.join().unwrap();
    format!("!tagstress seed={seed} total={total}\t{}", if err.is_empty() { "pass".to_string() } else { format!("FAIL {err}") })
}

pub fn run(args: &[String]) -> Vec<String> {
    let seed = arg_usize(args, "--seed", 1) as u64;
    let cases = arg_usize(args, "--cases", 1000);
    let max_steps = arg_usize(args, "--max-steps", 60);
    let stress_runs = arg_usize(args, "--stress", 4);
    let stress_total = arg_usize(args, "--stress-total", 200_000) as u64;
    let mut rng = Rng::new(seed);
    let mut out = Vec::new();
    for _ in 0..cases {
        let mut r = rng.fork();
        match quiet(|| interleaving(&mut r, max_steps)) {
            Ok((req, obs)) => out.push(format!("{req}\t{obs}")),
            Err(p) => out.push(format!(
                "!conc interleaving #{}\tFAIL a window acquisition / commit / consume that the protocol allows failed or panicked while the peer held its window: {p}",
                out.len()
            )),
        }
    }
    let tagged_only = arg_usize(args, "--tagged-only", 0) != 0;
    let tag_total = arg_usize(args, "--tag-stress-total", 300_000) as u64;
    for i in 0..arg_usize(args, "--tag-stress", 0) {
        out.push(tag_stress(seed.wrapping_mul(7919).wrapping_add(i as u64), tag_total));
    }
    for i in 0..stress_runs {
        if !tagged_only {
            out.push(stress(seed.wrapping_mul(1000).wrapping_add(i as u64), stress_total, false));
        }
        out.push(stress(seed.wrapping_mul(1000).wrapping_add(500 + i as u64), stress_total / 4, true));
    }
    out
}
