//! C01 / C02 correspondence: random operation programs on real streams.
//!
//! Each output line is `<request for the Lean driver>\t<what the real code showed>`.
use crate::common::*;
use rustradio::Complex;
use rustradio::stream::{Tag, TagValue, new_stream};

pub trait Elem: Copy + Send + 'static {
    const BITS: u32;
    const SIZE: usize;
    fn from_nat(v: u128) -> Self;
    /// exact bit pattern
    fn to_nat(&self) -> u128;
    /// bit pattern as compared with block models: NaNs canonicalised
    fn to_obs(&self) -> u128 {
        self.to_nat()
    }
}
macro_rules! int_elem {
    ($t:ty, $bits:expr) => {
        impl Elem for $t {
            const BITS: u32 = $bits;
            const SIZE: usize = $bits / 8;
            fn from_nat(v: u128) -> Self {
                v as $t
            }
            fn to_nat(&self) -> u128 {
                *self as u128
            }
        }
    };
}
int_elem!(u8, 8);
int_elem!(u16, 16);
int_elem!(u32, 32);
int_elem!(u64, 64);
impl Elem for f32 {
    const BITS: u32 = 32;
    const SIZE: usize = 4;
    fn from_nat(v: u128) -> Self {
        f32::from_bits(v as u32)
    }
    fn to_nat(&self) -> u128 {
        self.to_bits() as u128
    }
    fn to_obs(&self) -> u128 {
        canon_f32(*self) as u128
    }
}

/// Bit pattern with every NaN mapped to the canonical quiet NaN (payloads and
/// signs of NaN results depend on operand order chosen by the compiler).
pub fn canon_f32(x: f32) -> u32 {
    if x.is_nan() { 0x7fc0_0000 } else { x.to_bits() }
}

impl Elem for Complex {
    const BITS: u32 = 64;
    const SIZE: usize = 8;
    fn from_nat(v: u128) -> Self {
        Complex::new(f32::from_bits(v as u32), f32::from_bits((v >> 32) as u32))
    }
    fn to_nat(&self) -> u128 {
        (self.re.to_bits() as u128) | ((self.im.to_bits() as u128) << 32)
    }
    fn to_obs(&self) -> u128 {
        (canon_f32(self.re) as u128) | ((canon_f32(self.im) as u128) << 32)
    }
}
impl Elem for [u8; 16] {
    const BITS: u32 = 128;
    const SIZE: usize = 16;
    fn from_nat(v: u128) -> Self {
        v.to_le_bytes()
    }
    fn to_nat(&self) -> u128 {
        u128::from_le_bytes(*self)
    }
}

fn mask(bits: u32) -> u128 {
    if bits >= 128 { u128::MAX } else { (1u128 << bits) - 1 }
}

/// One program on a fresh stream of `pages` pages. Returns (request, observed).
fn program<T: Elem>(rng: &mut Rng, pages: usize, max_ops: usize, tag_heavy: bool) -> (String, String) {
    let size = pages * 4096;
    rustradio::verif::set_stream_size(size);
    let (w, r) = new_stream::<T>();
    rustradio::verif::set_stream_size(0);
    let cap = size / T::SIZE;
    let mut req = format!("ring {} {}", T::BITS, cap);
    let mut obs: Vec<String> = Vec::new();
    let mut counter: u128 = rng.next() as u128 | ((rng.next() as u128) << 64);
    // Phase 0: pre-advance so that the interesting part happens near the wrap point.
    let mut script: Vec<u8> = Vec::new();
    if rng.chance(2, 3) {
        script.push(b'A');
    }
    let nops = rng.range(1, max_ops);
    for _ in 0..nops {
        script.push(*rng.pick(if tag_heavy { &b"wwwwrrrcccwrcWXFY"[..] } else { &b"wwwwrrccccfwrcWWXFY"[..] }));
    }
    if rng.chance(1, 8) {
        script.push(*rng.pick(b"oC"));
    }
    for op in script {
        let mut dead = false;
        match op {
            b'A' => {
                // advance: write+consume so that rpos = wpos lands close to cap.
                let target = cap - rng.range(0, 6.min(cap - 1));
                let wb = w.write_buf().unwrap();
                assert!(wb.len() >= target);
                let mut wb = wb;
                for i in 0..target {
                    wb.slice()[i] = T::from_nat(counter.wrapping_add(i as u128) & mask(T::BITS));
                }
                wb.produce(target, &[]);
                req += &format!(" ; w {} {} {} 0", target, counter & mask(T::BITS), target);
                counter = counter.wrapping_add(target as u128);
                obs.push("ok".into());
                let (rb, _) = r.read_buf().unwrap();
                rb.consume(target);
                req += &format!(" ; c {}", target);
                obs.push("ok".into());
            }
            b'w' => {
                let mut wb = w.write_buf().unwrap();
                let len = wb.len();
                let k = match rng.below(6) {
                    0 => len,
                    1 => len.min(rng.range(0, 3)),
                    2 => len.saturating_sub(rng.range(0, 3)),
                    _ => len.min(rng.range(0, 12)),
                };
                let n = match rng.below(5) {
                    0 => 0,
                    1 => k / 2,
                    _ => k,
                };
                // the three ways a block can fill its window
                match rng.below(3) {
                    0 => {
                        for i in 0..k {
                            wb.slice()[i] = T::from_nat(counter.wrapping_add(i as u128) & mask(T::BITS));
                        }
                    }
                    1 => {
                        let vals: Vec<T> = (0..k).map(|i| T::from_nat(counter.wrapping_add(i as u128) & mask(T::BITS))).collect();
                        wb.fill_from_slice(&vals);
                    }
                    _ => {
                        let c0 = counter;
                        wb.fill_from_iter((0..k).map(move |i| T::from_nat(c0.wrapping_add(i as u128) & mask(T::BITS))));
                    }
                }
                let mut tags = Vec::new();
                let mut tagreq = String::new();
                if n > 0 {
                    let nt = if tag_heavy {
                        *rng.pick(&[0usize, 1, 2, 3, 4, 5, 5])
                    } else {
                        *rng.pick(&[0usize, 0, 1, 1, 2, 3, 5])
                    };
                    for _ in 0..nt {
                        let mut pos = match rng.below(4) {
                            0 => 0,
                            1 => n - 1,
                            2 => (n - 1).min(1),
                            _ => rng.below(n),
                        };
                        if rng.chance(1, 60) {
                            // outside the commit (against the documented contract): the samples are still
                            // committed, the tag sits on a later cell
                            pos = n + rng.below(3);
                        }
                        let key = rng.below(4);
                        let val = rng.below(1000);
                        tags.push(Tag::new(pos, format!("k{key}"), TagValue::U64(val as u64)));
                        tagreq += &format!(" {pos} {key} {val}");
                    }
                }
                req += &format!(
                    " ; w {} {} {} {}{}",
                    k,
                    counter & mask(T::BITS),
                    n,
                    tags.len(),
                    tagreq
                );
                counter = counter.wrapping_add(k as u128);
                match quiet(move || wb.produce(n, &tags)) {
                    Ok(()) => obs.push("ok".into()),
                    Err(_) => {
                        obs.push("refused".into());
                        dead = true;
                    }
                }
            }
            b'W' => {
                // A write window held across a consume (what two threads do): acquire and fill the
                // window, let the reader consume, then commit. For a correct ring this is the same
                // as "consume, then write", which is what the model is asked.
                let mut wb = w.write_buf().unwrap();
                let len = wb.len();
                let k = match rng.below(4) {
                    0 => len,
                    _ => len.min(rng.range(1, 12)),
                };
                for i in 0..k {
                    wb.slice()[i] = T::from_nat(counter.wrapping_add(i as u128) & mask(T::BITS));
                }
                let (rb, _) = r.read_buf().unwrap();
                let rlen = rb.len();
                let m = match rng.below(3) {
                    0 => rlen,
                    _ => rng.range(0, rlen),
                };
                req += &format!(" ; c {m}");
                match quiet(move || rb.consume(m)) {
                    Ok(()) => obs.push("ok".into()),
                    Err(_) => {
                        obs.push("refused".into());
                        dead = true;
                    }
                }
                let mut tags = Vec::new();
                let mut tagreq = String::new();
                if k > 0 && rng.chance(1, 2) {
                    let pos = rng.below(k);
                    let key = rng.below(4);
                    let val = rng.below(1000);
                    tags.push(Tag::new(pos, format!("k{key}"), TagValue::U64(val as u64)));
                    tagreq = format!(" {pos} {key} {val}");
                }
                if !dead {
                    req += &format!(" ; w {} {} {} {}{}", k, counter & mask(T::BITS), k, tags.len(), tagreq);
                    counter = counter.wrapping_add(k as u128);
                    match quiet(move || wb.produce(k, &tags)) {
                        Ok(()) => obs.push("ok".into()),
                        Err(_) => {
                            obs.push("refused".into());
                            dead = true;
                        }
                    }
                }
            }
            b'X' => {
                // Two write windows outstanding (both were handed the same free space): the first
                // commits k samples, then the second tries to commit more than is free NOW. For the
                // model: a write, then an over-commit, which must be refused.
                let mut wb1 = w.write_buf().unwrap();
                let wb2 = w.write_buf().unwrap();
                let len = wb1.len();
                if len < 2 {
                    continue;
                }
                let k = rng.range(1, len - 1).max(len / 2 + 1).min(len);
                for i in 0..k {
                    wb1.slice()[i] = T::from_nat(counter.wrapping_add(i as u128) & mask(T::BITS));
                }
                req += &format!(" ; w {} {} {} 0", k, counter & mask(T::BITS), k);
                counter = counter.wrapping_add(k as u128);
                match quiet(move || wb1.produce(k, &[])) {
                    Ok(()) => obs.push("ok".into()),
                    Err(_) => {
                        obs.push("refused".into());
                        dead = true;
                    }
                }
                if !dead {
                    // free now = len - k; the stale window still shows len
                    let free_now = len - k;
                    let extra = rng.below(3).min(len - free_now - 1);
                    let n = free_now + 1 + extra;
                    req += &format!(" ; o {extra}");
                    match quiet(move || wb2.produce(n, &[])) {
                        Ok(()) => obs.push("ok".into()),
                        Err(_) => {
                            obs.push("refused".into());
                            dead = true;
                        }
                    }
                }
            }
            b'F' => {
                // more samples than the window has: must be refused, and must not touch the queued samples
                let mut wb = w.write_buf().unwrap();
                let len = wb.len();
                let extra = 1 + rng.below(3);
                let vals: Vec<T> = (0..len + extra).map(|i| T::from_nat((0xdead_0000u128 + i as u128) & mask(T::BITS))).collect();
                req += " ; x";
                match quiet(move || wb.fill_from_slice(&vals)) {
                    Ok(()) => obs.push("ok".into()),
                    Err(_) => obs.push("refused".into()),
                }
            }
            b'Y' => {
                // Two read windows outstanding (both were shown the same samples): each is consumed in turn.
                // For the model: two consumes.
                let (rb1, _) = r.read_buf().unwrap();
                let (rb2, _) = r.read_buf().unwrap();
                let len = rb1.len();
                let m1 = rng.range(0, len.min(9));
                let m2 = rng.range(0, (len - m1).min(9));
                req += &format!(" ; c {m1}");
                match quiet(move || rb1.consume(m1)) {
                    Ok(()) => obs.push("ok".into()),
                    Err(_) => {
                        obs.push("refused".into());
                        dead = true;
                    }
                }
                if !dead {
                    req += &format!(" ; c {m2}");
                    match quiet(move || rb2.consume(m2)) {
                        Ok(()) => obs.push("ok".into()),
                        Err(_) => {
                            obs.push("refused".into());
                            dead = true;
                        }
                    }
                }
            }
            b'o' => {
                let wb = w.write_buf().unwrap();
                let extra = rng.below(3);
                let n = wb.len() + 1 + extra;
                req += &format!(" ; o {extra}");
                match quiet(move || wb.produce(n, &[])) {
                    Ok(()) => obs.push("ok".into()),
                    Err(_) => {
                        obs.push("refused".into());
                        dead = true;
                    }
                }
            }
            b'r' => {
                req += " ; r";
                let (rb, tags) = r.read_buf().unwrap();
                let h = hash_list(rb.slice().iter().map(|v| v.to_nat()));
                let ts: Vec<String> = tags
                    .iter()
                    .map(|t| {
                        let key = t.key().trim_start_matches('k').to_string();
                        let val = match t.val() {
                            TagValue::U64(v) => v.to_string(),
                            other => format!("{other:?}"),
                        };
                        format!("{},{},{}", t.pos(), key, val)
                    })
                    .collect();
                obs.push(format!(
                    "win {} {} {} [{}]",
                    rb.len(),
                    w.free(),
                    h,
                    ts.join(" ")
                ));
            }
            b'c' | b'C' => {
                let (rb, _) = r.read_buf().unwrap();
                let len = rb.len();
                let m = if op == b'C' {
                    len + 1 + rng.below(3)
                } else {
                    match rng.below(6) {
                        0 => 0,
                        1 => len,
                        2 => len.min(1),
                        _ => rng.range(0, len),
                    }
                };
                req += &format!(" ; c {m}");
                match quiet(move || rb.consume(m)) {
                    Ok(()) => obs.push("ok".into()),
                    Err(_) => {
                        obs.push("refused".into());
                        dead = true;
                    }
                }
            }
            b'f' => {
                req += " ; f";
                obs.push(format!("num {}", w.free()));
            }
            _ => unreachable!(),
        }
        if dead {
            break;
        }
    }
    (req, obs.join(" ; "))
}

/// Admission: which (sample size, buffer size) pairs `Buffer::new` accepts.
fn admission(out: &mut Vec<String>) {
    use rustradio::circular_buffer::Buffer;
    fn one<T>(size: usize) -> String {
        let ms = std::mem::size_of::<T>();
        let res = quiet(|| Buffer::<T>::new(size).map(|b| b.total_size()));
        let obs = match res {
            Ok(Ok(cap)) => format!("some {cap}"),
            Ok(Err(_)) => "none".to_string(),
            Err(_) => "none".to_string(),
        };
        format!("ringnew 4096 {ms} {size}\t{obs}")
    }
    for size in [0usize, 1, 100, 4095, 4096, 4097, 6144, 8192, 12288, 16384, 4096 * 3 + 8] {
        out.push(one::<u8>(size));
        out.push(one::<u16>(size));
        out.push(one::<[u8; 3]>(size));
        out.push(one::<u32>(size));
        out.push(one::<[u8; 5]>(size));
        out.push(one::<[u16; 3]>(size));
        out.push(one::<u64>(size));
        out.push(one::<[u32; 3]>(size));
        out.push(one::<[u8; 16]>(size));
        out.push(one::<[u8; 24]>(size));
        // samples larger than a page: twice the stream size is a whole number of them, the stream size is not
        out.push(one::<[u8; 8192]>(size));
        out.push(one::<[u8; 24576]>(size));
    }
    for size in [20480usize, 24576, 40960] {
        out.push(one::<[u8; 8192]>(size));
        out.push(one::<[u8; 16384]>(size));
        out.push(one::<[u8; 49152]>(size));
    }
}

/// Streams created, used across their wrap point and dropped by several threads at once: every stream is its own
/// memory (a stream being set up must never take over address space that another one was just given).
fn concurrent_create(seed: u64) -> String {
    let threads = 8;
    let rounds = 120;
    let mut hs = vec![];
    for t in 0..threads {
        hs.push(std::thread::spawn(move || -> Result<(), String> {
            let mut rng = Rng::new(seed.wrapping_mul(977).wrapping_add(t as u64));
            for round in 0..rounds {
                rustradio::verif::set_stream_size(4096 * *rng.pick(&[1usize, 1, 2, 4]));
                let (w, r) = new_stream::<u64>();
                let cap = w.free();
                let tag = ((t as u64) << 48) | ((round as u64) << 32);
                // advance to near the end, then a window across the wrap point
                let adv = cap - rng.range(1, 8);
                {
                    let wb = w.write_buf().map_err(|e| e.to_string())?;
                    wb.produce(adv, &[]);
                    let (rb, _) = r.read_buf().map_err(|e| e.to_string())?;
                    rb.consume(adv);
                }
                let k = rng.range(9, 40);
                {
                    let mut wb = w.write_buf().map_err(|e| e.to_string())?;
                    for i in 0..k {
                        wb.slice()[i] = tag | i as u64;
                    }
                    wb.produce(k, &[]);
                }
                std::thread::yield_now();
                let (rb, _) = r.read_buf().map_err(|e| e.to_string())?;
                for (i, v) in rb.slice().iter().enumerate() {
                    if *v != (tag | i as u64) {
                        return Err(format!("thread {t} round {round}: sample {i} of its own stream reads {v:#x}"));
                    }
                }
                rb.consume(k);
            }
            Ok(())
        }));
    }
    let mut verdict = "pass".to_string();
    for h in hs {
        match h.join() {
            Ok(Ok(())) => {}
            Ok(Err(e)) => verdict = format!("FAIL {e}"),
            Err(_) => verdict = "FAIL a thread panicked".to_string(),
        }
    }
    rustradio::verif::set_stream_size(0);
    format!("!ringmt seed={seed} threads={threads} rounds={rounds}\t{verdict}\t{}", if verdict == "pass" { "" } else { "concurrent-create" })
}

pub fn run(args: &[String]) -> Vec<String> {
    let seed = arg_usize(args, "--seed", 1) as u64;
    let cases = arg_usize(args, "--cases", 1000);
    let max_ops = arg_usize(args, "--max-ops", 40);
    let tag_heavy = arg_usize(args, "--tag-heavy", 0) != 0;
    let mut rng = Rng::new(seed);
    let mut lines = Vec::new();
    admission(&mut lines);
    lines.push(concurrent_create(seed));
    for i in 0..cases {
        let mut r = rng.fork();
        let pages = *r.pick(&[1usize, 1, 1, 2, 3, 4]);
        // a panic outside the operations that may legitimately refuse (commit, consume) is itself a finding
        let res = quiet(|| match i % 6 {
            0 => program::<u8>(&mut r, pages, max_ops, tag_heavy),
            1 => program::<u16>(&mut r, pages, max_ops, tag_heavy),
            2 => program::<u32>(&mut r, pages, max_ops, tag_heavy),
            3 => program::<u64>(&mut r, pages, max_ops, tag_heavy),
            4 => program::<Complex>(&mut r, pages, max_ops, tag_heavy),
            _ => program::<[u8; 16]>(&mut r, pages, max_ops, tag_heavy),
        });
        match res {
            Ok((req, obs)) => lines.push(format!("{req}\t{obs}")),
            Err(p) => lines.push(format!(
                "!ring case #{i} pages={pages} type={}\tFAIL the ring panicked in window acquisition / read-out (not in a commit or consume that may refuse): {p}",
                i % 6
            )),
        }
    }
    lines
}
