//! C11: DSP kernels against their definitions and against each other.
//!
//! Model-compared lines (`dsp …`, answered by `RR.Dsp` in Float32 — bit exact):
//!   `dsp dot <kernel> ; taps ; input`   Fir::<f32>::filter_float (kernel = what this build compiles)
//!   `dsp firn <deci> ; taps ; input`    Fir::<f32>::filter_n
//!   `dsp iir ; taps ; input`            IirFilter::<f32>::filter
//!   `dsp fftsize <n>`                   fft size chosen by FftFilter (observed through its batch size)
//! Self-checking lines (`!dsp …`): the real blocks against the f64 definition
//! (sliding dot product / linear convolution with zero pre-history / recurrences /
//! identities), within rounding bounds.
use crate::common::*;
use rustradio::Complex;
use rustradio::block::{Block, BlockRet};
use rustradio::blocks::*;
use rustradio::fft_filter::Engine;
use rustradio::fir::Fir;
use rustradio::iir_filter::{Filter, IirFilter};
use rustradio::stream::{ReadStream, WriteStream, new_stream};
use rustradio::window::WindowType;

pub fn kernel_name() -> &'static str {
    if cfg!(all(target_feature = "avx", target_feature = "sse3", target_feature = "sse")) {
        "avx"
    } else if cfg!(feature = "simd") {
        "simd"
    } else {
        "scalar"
    }
}

fn bits(v: &[f32]) -> String {
    v.iter().map(|x| x.to_bits().to_string()).collect::<Vec<_>>().join(" ")
}
fn canon(x: f32) -> u32 {
    if x.is_nan() { 0x7fc0_0000 } else { x.to_bits() }
}
fn hash_f32(v: &[f32]) -> String {
    format!("{}:{}", v.len(), hash_list(v.iter().map(|x| canon(*x) as u128)))
}

/// Feed `input` through `block`, collecting everything it writes to `out`.
pub fn pump<TI: Copy, TO: Copy>(w: WriteStream<TI>, block: &mut dyn Block, out: &ReadStream<TO>, input: &[TI]) -> Result<Vec<TO>, String> {
    let mut w = Some(w);
    let mut pos = 0;
    let mut got = Vec::new();
    let mut idle = 0;
    for _round in 0..(input.len() * 4 + 1000) {
        let mut progress = false;
        if let Some(ws) = &w {
            if pos < input.len() {
                let mut wb = ws.write_buf().map_err(|e| e.to_string())?;
                let n = wb.len().min(input.len() - pos);
                wb.slice()[..n].copy_from_slice(&input[pos..pos + n]);
                wb.produce(n, &[]);
                pos += n;
                progress |= n > 0;
            }
        }
        if pos == input.len() && w.is_some() && idle >= 1 {
            w = None;
            progress = true;
        }
        for _ in 0..64 {
            match block.work().map_err(|e| e.to_string())? {
                BlockRet::Again => progress = true,
                _ => break,
            }
        }
        {
            let (rb, _tags) = out.read_buf().map_err(|e| e.to_string())?;
            let n = rb.len();
            got.extend_from_slice(rb.slice());
            rb.consume(n);
            progress |= n > 0;
        }
        if progress {
            idle = 0;
        } else {
            idle += 1;
            if idle > 3 && w.is_none() {
                break;
            }
        }
    }
    Ok(got)
}

/// Like `pump`, with random write sizes and random partial drains (the block sees its input in pieces
/// and a nearly full output).
pub fn pump_rand<TI: Copy, TO: Copy>(rng: &mut Rng, w: WriteStream<TI>, block: &mut dyn Block, out: &ReadStream<TO>, input: &[TI]) -> Result<Vec<TO>, String> {
    let mut w = Some(w);
    let mut pos = 0;
    let mut got = Vec::new();
    let mut idle = 0;
    for _round in 0..(input.len() * 8 + 2000) {
        let mut progress = false;
        if let Some(ws) = &w {
            if pos < input.len() {
                let mut wb = ws.write_buf().map_err(|e| e.to_string())?;
                let n = wb.len().min(input.len() - pos).min(rng.range(0, 300));
                wb.slice()[..n].copy_from_slice(&input[pos..pos + n]);
                wb.produce(n, &[]);
                pos += n;
                progress |= n > 0;
            }
        }
        if pos == input.len() && w.is_some() && idle >= 1 {
            w = None;
            progress = true;
        }
        for _ in 0..rng.range(1, 3) {
            match block.work().map_err(|e| e.to_string())? {
                BlockRet::Again => progress = true,
                _ => break,
            }
        }
        {
            let (rb, _tags) = out.read_buf().map_err(|e| e.to_string())?;
            // mostly drain little (output stays nearly full), sometimes everything; everything once the input is gone
            let n = if w.is_none() || rng.chance(1, 4) { rb.len() } else { rb.len().min(rng.range(0, 40)) };
            got.extend_from_slice(&rb.slice()[..n]);
            rb.consume(n);
            progress |= n > 0;
        }
        if progress {
            idle = 0;
        } else {
            idle += 1;
            if idle > 3 && w.is_none() {
                break;
            }
        }
    }
    Ok(got)
}

/// `FftStream`: whole frames of `size` samples, each the forward DFT of the corresponding input frame.
fn fftstream_check(rng: &mut Rng) -> String {
    let size = *rng.pick(&[1usize, 2, 4, 8, 16, 32, 64, 100]);
    let len = rng.range(0, 6 * size + 700);
    let seed = rng.next() >> 40;
    let id = format!("!dsp fftstream size={size} len={len} seed={seed}");
    let mut r2 = Rng::new(seed);
    let sig: Vec<Complex> = (0..len).map(|_| Complex::new(r2.below(17) as f32 - 8.0, r2.below(17) as f32 - 8.0)).collect();
    let r = quiet(|| -> Result<(), String> {
        let (w, r) = new_stream::<Complex>();
        let (mut b, o) = FftStream::new(r, size);
        let out = pump_rand(&mut r2, w, &mut b, &o, &sig)?;
        let frames = len / size;
        if out.len() != frames * size {
            return Err(format!("{} samples out, want {} whole frames = {}", out.len(), frames, frames * size));
        }
        for f in 0..frames {
            for k in 0..size {
                let (mut re, mut im) = (0.0f64, 0.0f64);
                for n in 0..size {
                    let ang = -2.0 * std::f64::consts::PI * (k * n % size) as f64 / size as f64;
                    let x = sig[f * size + n];
                    re += x.re as f64 * ang.cos() - x.im as f64 * ang.sin();
                    im += x.re as f64 * ang.sin() + x.im as f64 * ang.cos();
                }
                let y = out[f * size + k];
                let tol = 1e-3 * (size as f64) * 12.0 + 1e-3;
                if !close(y.re as f64, re, tol) || !close(y.im as f64, im, tol) {
                    return Err(format!("frame {f} bin {k}: {y}, DFT of the input frame: ({re}, {im})"));
                }
            }
        }
        Ok(())
    });
    match r {
        Ok(Ok(())) => format!("{id}\tpass"),
        Ok(Err(e)) => format!("{id}\tFAIL {e}"),
        Err(p) => format!("{id}\tFAIL panic: {p}"),
    }
}

/// Exact engine: cyclic convolution in integer arithmetic (inputs must be integer valued).
pub struct ExactEngine {
    taps: Vec<(i64, i64)>,
}
impl ExactEngine {
    pub fn new(taps: &[Complex]) -> Self {
        Self { taps: taps.iter().map(|c| (c.re as i64, c.im as i64)).collect() }
    }
}
impl Engine for ExactEngine {
    fn run(&mut self, i: &mut [Complex]) {
        let n = i.len();
        let x: Vec<(i64, i64)> = i.iter().map(|c| (c.re as i64, c.im as i64)).collect();
        for (j, o) in i.iter_mut().enumerate() {
            let (mut re, mut im) = (0i64, 0i64);
            for (k, t) in self.taps.iter().enumerate() {
                let s = x[(j + n - k % n) % n];
                re += s.0 * t.0 - s.1 * t.1;
                im += s.0 * t.1 + s.1 * t.0;
            }
            *o = Complex::new(re as f32, im as f32);
        }
    }
    fn tap_len(&self) -> usize {
        self.taps.len()
    }
}

fn gen_signal(rng: &mut Rng, kind: usize, len: usize) -> Vec<f32> {
    match kind {
        0 => (0..len).map(|_| (rng.below(2001) as f32 - 1000.0) / 1000.0).collect(),
        1 => (0..len).map(|i| if i == len / 3 { 1.0 } else { 0.0 }).collect(),
        2 => (0..len).map(|i| if i >= len / 4 { 1.0 } else { 0.0 }).collect(),
        3 => {
            let w = 0.01 + (rng.below(300) as f32) / 100.0;
            (0..len).map(|i| (w * i as f32).sin()).collect()
        }
        _ => (0..len).map(|_| (rng.below(17) as f32) - 8.0).collect(),
    }
}
const KINDS: [&str; 5] = ["random", "impulse", "step", "sinusoid", "integers"];

/// f64 linear convolution with zero pre-history: y[n] = sum_k h[k] x[n-k].
fn conv_ref(h: &[(f64, f64)], x: &[(f64, f64)], n: usize) -> (f64, f64) {
    let (mut re, mut im) = (0.0, 0.0);
    for (k, t) in h.iter().enumerate() {
        if k <= n && n - k < x.len() {
            let s = x[n - k];
            re += s.0 * t.0 - s.1 * t.1;
            im += s.0 * t.1 + s.1 * t.0;
        }
    }
    (re, im)
}

fn close(a: f64, b: f64, tol: f64) -> bool {
    (a - b).abs() <= tol || (a.is_nan() && b.is_nan())
}

fn fft_vs_fir(rng: &mut Rng) -> String {
    let ntaps = match rng.below(4) {
        0 => rng.range(1, 4),
        1 => rng.range(1, 40),
        _ => rng.range(1, 200),
    };
    let deci = rng.range(1, 8);
    let kind = rng.below(5);
    let len = rng.range(0, 3000);
    let complex = rng.chance(1, 2);
    let sig_re = gen_signal(rng, kind, len);
    let sig_im = if complex { gen_signal(rng, kind, len) } else { vec![0.0; len] };
    let taps_re: Vec<f32> = (0..ntaps).map(|_| (rng.below(2001) as f32 - 1000.0) / 1000.0).collect();
    let taps_im: Vec<f32> = if complex { (0..ntaps).map(|_| (rng.below(2001) as f32 - 1000.0) / 1000.0).collect() } else { vec![0.0; ntaps] };
    let id = format!("!dsp fft-vs-fir complex={complex} ntaps={ntaps} deci={deci} input={} len={len} kernel={}", KINDS[kind], kernel_name());
    let h: Vec<(f64, f64)> = taps_re.iter().zip(&taps_im).map(|(a, b)| (*a as f64, *b as f64)).collect();
    let x: Vec<(f64, f64)> = sig_re.iter().zip(&sig_im).map(|(a, b)| (*a as f64, *b as f64)).collect();
    let hsum: f64 = h.iter().map(|t| t.0.abs() + t.1.abs()).sum();
    let xmax: f64 = x.iter().map(|t| t.0.abs().max(t.1.abs())).fold(1e-9, f64::max);
    let tol = 4e-6 * (hsum * xmax * 2.0 + 1.0) * ((ntaps as f64).log2() + 4.0);
    let r = quiet(|| -> Result<(), String> {
        if complex {
            let taps: Vec<Complex> = taps_re.iter().zip(&taps_im).map(|(a, b)| Complex::new(*a, *b)).collect();
            let sig: Vec<Complex> = sig_re.iter().zip(&sig_im).map(|(a, b)| Complex::new(*a, *b)).collect();
            // FIR
            let (w, r) = new_stream::<Complex>();
            let (mut b, o) = FirFilterBuilder::new(&taps).deci(deci).build(r);
            let fir = pump(w, &mut b, &o, &sig)?;
            let want = if len + 1 > ntaps { (len - ntaps + 1) / deci } else { 0 };
            if fir.len() != want {
                return Err(format!("FIR delivered {} samples, definition gives {want}", fir.len()));
            }
            for (m, y) in fir.iter().enumerate() {
                let e = conv_ref(&h, &x, m * deci + ntaps - 1);
                if !close(y.re as f64, e.0, tol) || !close(y.im as f64, e.1, tol) {
                    return Err(format!("FIR output {m} = {y}, sliding dot product = {e:?}"));
                }
            }
            // FFT
            let (w, r) = new_stream::<Complex>();
            let (mut b, o) = FftFilter::new(r, &taps);
            let fft = pump(w, &mut b, &o, &sig)?;
            let fft_size = 2 * ntaps.next_power_of_two();
            let ns = fft_size - ntaps;
            if fft.len() != len / ns * ns {
                return Err(format!("FFT filter delivered {} samples, want {} (whole batches of {ns})", fft.len(), len / ns * ns));
            }
            for (n, y) in fft.iter().enumerate() {
                let e = conv_ref(&h, &x, n);
                if !close(y.re as f64, e.0, tol) || !close(y.im as f64, e.1, tol) {
                    return Err(format!("FFT filter output {n} = {y}, linear convolution = {e:?} (tol {tol:e})"));
                }
            }
        } else {
            let (w, r) = new_stream::<f32>();
            let (mut b, o) = FirFilterBuilder::new(&taps_re).deci(deci).build(r);
            let fir = pump(w, &mut b, &o, &sig_re)?;
            let want = if len + 1 > ntaps { (len - ntaps + 1) / deci } else { 0 };
            if fir.len() != want {
                return Err(format!("FIR delivered {} samples, definition gives {want}", fir.len()));
            }
            for (m, y) in fir.iter().enumerate() {
                let e = conv_ref(&h, &x, m * deci + ntaps - 1);
                if !close(*y as f64, e.0, tol) {
                    return Err(format!("FIR output {m} = {y}, sliding dot product = {}", e.0));
                }
            }
            let (w, r) = new_stream::<f32>();
            let (mut b, o) = FftFilterFloat::new(r, &taps_re);
            let fft = pump(w, &mut b, &o, &sig_re)?;
            let fft_size = 2 * ntaps.next_power_of_two();
            let ns = fft_size - ntaps;
            if fft.len() != len / ns * ns {
                return Err(format!("FFT float filter delivered {} samples, want {}", fft.len(), len / ns * ns));
            }
            for (n, y) in fft.iter().enumerate() {
                let e = conv_ref(&h, &x, n);
                if !close(*y as f64, e.0, tol) {
                    return Err(format!("FFT float filter output {n} = {y}, linear convolution = {} (tol {tol:e})", e.0));
                }
            }
        }
        Ok(())
    });
    match r {
        Ok(Ok(())) => format!("{id}\tpass"),
        Ok(Err(e)) => format!("{id}\tFAIL {e}"),
        Err(p) => format!("{id}\tFAIL panic: {p}"),
    }
}

fn window_types() -> Vec<(&'static str, WindowType)> {
    vec![("hamming", WindowType::Hamming), ("blackman", WindowType::Blackman), ("blackmanharris", WindowType::BlackmanHarris)]
}

fn lowpass_check(rng: &mut Rng) -> String {
    let wts = window_types();
    let (wn, wt) = &wts[rng.below(wts.len())];
    let samp_rate = *rng.pick(&[8000.0f32, 48000.0, 50000.0, 1_000_000.0, 2_400_000.0]);
    let twidth = samp_rate / (rng.range(8, 300) as f32);
    let cutoff = samp_rate * (rng.range(1, 45) as f32) / 100.0;
    let id = format!("!dsp lowpass window={wn} samp_rate={samp_rate} cutoff={cutoff} twidth={twidth}");
    let r = quiet(|| -> Result<(), String> {
        let taps = rustradio::fir::low_pass(samp_rate, cutoff, twidth, wt);
        let n = taps.len();
        if n % 2 != 1 {
            return Err(format!("{n} taps: not odd"));
        }
        let scale = taps.iter().fold(0.0f32, |a, b| a.max(b.abs())) as f64;
        for i in 0..n {
            if !close(taps[i] as f64, taps[n - 1 - i] as f64, 2e-5 * scale) {
                return Err(format!("taps[{i}] = {} but taps[{}] = {}", taps[i], n - 1 - i, taps[n - 1 - i]));
            }
        }
        let sum: f64 = taps.iter().map(|t| *t as f64).sum();
        if !close(sum, 1.0, 2e-4) {
            return Err(format!("DC gain {sum}"));
        }
        // complex variant = same taps, zero imaginary part
        let ctaps = rustradio::fir::low_pass_complex(samp_rate, cutoff, twidth, wt);
        if ctaps.len() != n || ctaps.iter().zip(&taps).any(|(c, t)| c.re.to_bits() != t.to_bits() || c.im != 0.0) {
            return Err("low_pass_complex differs from low_pass".into());
        }
        Ok(())
    });
    match r {
        Ok(Ok(())) => format!("{id}\tpass"),
        Ok(Err(e)) => format!("{id}\tFAIL {e}"),
        Err(p) => format!("{id}\tFAIL panic: {p}"),
    }
}

fn hilbert_check(rng: &mut Rng) -> String {
    let wts = window_types();
    let (wn, wt) = &wts[rng.below(wts.len())];
    let ntaps = 2 * rng.range(1, 100) + 1;
    let id = format!("!dsp hilbert-taps window={wn} ntaps={ntaps}");
    let r = quiet(|| -> Result<(), String> {
        let win = wt.make_window(ntaps);
        for i in 0..ntaps {
            if !close(win.0[i] as f64, win.0[ntaps - 1 - i] as f64, 3e-6) {
                return Err(format!("window[{i}] = {} but window[{}] = {}", win.0[i], ntaps - 1 - i, win.0[ntaps - 1 - i]));
            }
        }
        let taps = rustradio::fir::hilbert(&win);
        let mid = (ntaps - 1) / 2;
        if taps[mid] != 0.0 {
            return Err(format!("centre tap {}", taps[mid]));
        }
        let scale = taps.iter().fold(0.0f32, |a, b| a.max(b.abs())) as f64;
        // unit gain at a quarter of the sample rate: |H(pi/2)| = 2 * |sum over odd i of taps[mid+i] * sin(i pi/2)| = 1
        let mut alt = 0.0f64;
        for i in (1..=mid).step_by(2) {
            alt += taps[mid + i] as f64 * if (i / 2) % 2 == 0 { 1.0 } else { -1.0 };
        }
        if !close(2.0 * alt.abs(), 1.0, 1e-4) {
            return Err(format!("gain at fs/4 is {} (must be 1)", 2.0 * alt.abs()));
        }
        for i in 1..=mid {
            if !close(taps[mid + i] as f64, -(taps[mid - i] as f64), 3e-5 * scale) {
                return Err(format!("taps[mid+{i}] = {} but taps[mid-{i}] = {}", taps[mid + i], taps[mid - i]));
            }
            if i % 2 == 0 && (taps[mid + i] != 0.0 || taps[mid - i] != 0.0) {
                return Err(format!("even offset {i} not zero"));
            }
        }
        Ok(())
    });
    match r {
        Ok(Ok(())) => format!("{id}\tpass"),
        Ok(Err(e)) => format!("{id}\tFAIL {e}"),
        Err(p) => format!("{id}\tFAIL panic: {p}"),
    }
}

fn quad_check(rng: &mut Rng) -> String {
    let gain = *rng.pick(&[1.0f32, 0.5, 1.5, 7.0]);
    let len = rng.range(1, 600);
    let id_seed = rng.next() >> 40;
    let id = format!("!dsp quaddemod gain={gain} len={len} seed={id_seed}");
    let mut r2 = Rng::new(id_seed);
    // phases with increments in (-pi, pi), random amplitude
    let mut ph = 0.0f64;
    let mut incs = vec![];
    // gaps of exact zeros (a gated / zero-padded stream): zero[n] = sample n is exactly 0
    let mut zero = vec![false; len];
    let mut gap_left = 0usize;
    let sig: Vec<Complex> = (0..len)
        .map(|n| {
            let inc = ((r2.below(6001) as f64) - 3000.0) / 1000.0;
            ph += inc;
            incs.push(inc);
            if gap_left == 0 && r2.chance(1, 40) {
                gap_left = r2.range(1, 5);
            }
            if gap_left > 0 {
                gap_left -= 1;
                zero[n] = true;
                return Complex::new(0.0, 0.0);
            }
            let a = 0.1 + (r2.below(100) as f64) / 10.0;
            Complex::new((a * ph.cos()) as f32, (a * ph.sin()) as f32)
        })
        .collect();
    let r = quiet(|| -> Result<(), String> {
        let (w, r) = new_stream::<Complex>();
        let (mut b, o) = QuadratureDemod::new(r, gain);
        let out = pump(w, &mut b, &o, &sig)?;
        if out.len() != len {
            return Err(format!("{} outputs for {len} inputs", out.len()));
        }
        // first output: the previous sample is 0, whose argument is undefined (atan2 of signed
        // zeros): any angle is acceptable
        if !(out[0].abs() as f64 <= gain as f64 * 3.1416) {
            return Err(format!("first output {}", out[0]));
        }
        for n in 1..len {
            if zero[n] || zero[n - 1] {
                // x[n] * conj(x[n-1]) is a (signed) zero: atan2 of signed zeros is 0 or +-pi, nothing else
                let a = (out[n] as f64 / gain as f64).abs();
                if !(close(a, 0.0, 1e-6) || close(a, std::f64::consts::PI, 1e-5)) {
                    return Err(format!("output {n} = {} next to an exactly zero sample: neither 0 nor +-gain*pi", out[n]));
                }
                continue;
            }
            // phase advance over the samples (zero samples carry no phase; the step is from n-1 to n)
            let want = gain as f64 * incs[n];
            if !close(out[n] as f64, want, 2e-3 * gain as f64) {
                return Err(format!("output {n} = {}, gain * phase step = {want}", out[n]));
            }
        }
        Ok(())
    });
    match r {
        Ok(Ok(())) => format!("{id}\tpass"),
        Ok(Err(e)) => format!("{id}\tFAIL {e}"),
        Err(p) => format!("{id}\tFAIL panic: {p}"),
    }
}

/// The convolution theorem as the engines implement it: `run` = cyclic convolution with the taps.
fn engine_check(rng: &mut Rng) -> String {
    let ntaps = rng.range(1, 70);
    let n = 2 * ntaps.next_power_of_two();
    let seed = rng.next() >> 40;
    let id = format!("!dsp engine ntaps={ntaps} fft_size={n} seed={seed}");
    let mut r2 = Rng::new(seed);
    let taps: Vec<Complex> = (0..ntaps).map(|_| Complex::new(r2.below(9) as f32 - 4.0, r2.below(9) as f32 - 4.0)).collect();
    let buf: Vec<Complex> = (0..n).map(|_| Complex::new(r2.below(9) as f32 - 4.0, r2.below(9) as f32 - 4.0)).collect();
    let r = quiet(|| -> Result<(), String> {
        let mut a = buf.clone();
        let mut b = buf.clone();
        rustradio::fft_filter::rr_rustfft::RustFftEngine::new(&taps).run(&mut a);
        ExactEngine::new(&taps).run(&mut b);
        for i in 0..n {
            if !close(a[i].re as f64, b[i].re as f64, 0.02) || !close(a[i].im as f64, b[i].im as f64, 0.02) {
                return Err(format!("bin {i}: engine {} cyclic convolution {}", a[i], b[i]));
            }
        }
        Ok(())
    });
    match r {
        Ok(Ok(())) => format!("{id}\tpass"),
        Ok(Err(e)) => format!("{id}\tFAIL {e}"),
        Err(p) => format!("{id}\tFAIL panic: {p}"),
    }
}

fn rand_f32s(rng: &mut Rng, n: usize, mode: usize) -> Vec<f32> {
    (0..n)
        .map(|_| match mode {
            0 => rng.below(17) as f32 - 8.0,
            1 => (rng.below(20001) as f32 - 10000.0) / 7.0,
            _ => f32::from_bits(*rng.pick(&crate::blocks::F32_TBL) as u32),
        })
        .collect()
}

fn dot_line(rng: &mut Rng) -> String {
    let n = match rng.below(3) {
        0 => rng.range(0, 9),
        1 => rng.range(0, 40),
        _ => rng.range(0, 200),
    };
    let kernel = kernel_name();
    // the portable-simd reduction order is not specified: integer-valued data only
    let mode = if kernel == "simd" { 0 } else { rng.below(3) };
    let taps = rand_f32s(rng, n, mode);
    // filter_float takes exactly ntaps samples in the library's own use (Hilbert); longer input is
    // legal for `filter`
    let extra = if rng.chance(1, 4) { rng.range(0, 9) } else { 0 };
    let input = rand_f32s(rng, n + extra, mode);
    let fir = Fir::new(&taps);
    let got = quiet(|| fir.filter_float(&input));
    let obs = match got {
        Ok(v) => canon(v).to_string(),
        Err(_) => "panic".into(),
    };
    // model works on the stored (reversed) taps
    let rt: Vec<f32> = taps.iter().rev().copied().collect();
    format!("dsp dot {kernel} ; {} ; {}\t{obs}", bits(&rt), bits(&input))
}

fn firn_line(rng: &mut Rng) -> String {
    let n = rng.range(1, 30);
    let deci = rng.range(1, 8);
    let mode = rng.below(3);
    let taps = rand_f32s(rng, n, mode);
    let len = if rng.chance(1, 8) { rng.range(0, n) } else { rng.range(n, n + 120) };
    let input = rand_f32s(rng, len, mode);
    let fir = Fir::new(&taps);
    let obs = match quiet(|| fir.filter_n(&input, deci)) {
        Ok(v) => hash_f32(&v),
        Err(_) => "panic".into(),
    };
    format!("dsp firn {deci} ; {} ; {}\t{obs}", bits(&taps), bits(&input))
}

fn iir_line(rng: &mut Rng) -> String {
    let n = rng.range(1, 8);
    let mode = rng.below(3);
    let taps: Vec<f32> = if mode == 1 { (0..n).map(|_| (rng.below(1999) as f32 - 999.0) / 1000.0).collect() } else { rand_f32s(rng, n, mode) };
    let ilen = rng.range(0, 60);
    let input = rand_f32s(rng, ilen, mode);
    let obs = match quiet(|| {
        let mut f = IirFilter::new(&taps);
        input.iter().map(|x| f.filter(*x)).collect::<Vec<f32>>()
    }) {
        Ok(v) => hash_f32(&v),
        Err(_) => "panic".into(),
    };
    format!("dsp iir ; {} ; {}\t{obs}", bits(&taps), bits(&input))
}

fn iirc_line(rng: &mut Rng) -> String {
    use rustradio::iir_filter::ClampedFilter;
    let n = rng.range(1, 6);
    let mode = rng.below(2);
    let taps: Vec<f32> = if mode == 1 { (0..n).map(|_| (rng.below(1999) as f32 - 999.0) / 500.0).collect() } else { rand_f32s(rng, n, 0) };
    let ilen = rng.range(0, 60);
    let input = rand_f32s(rng, ilen, mode);
    let (mi, mx) = *rng.pick(&[(0.0f32, 1.0f32), (-1.0, 1.0), (-3.0, 7.5), (2.0, 2.0), (-100.0, 100.0)]);
    let obs = match quiet(|| {
        let mut f = IirFilter::new(&taps);
        input.iter().map(|x| f.filter_clamped(*x, mi, mx)).collect::<Vec<f32>>()
    }) {
        Ok(v) => hash_f32(&v),
        Err(_) => "panic".into(),
    };
    format!("dsp iirc ; {} ; {} {} ; {}\t{obs}", bits(&taps), mi.to_bits(), mx.to_bits(), bits(&input))
}

/// Batch size of FftFilter observed on the real block: feed one sample at a time until output appears.
fn fftsize_line(ntaps: usize) -> String {
    let obs = quiet(|| -> Result<usize, String> {
        let taps = vec![Complex::new(1.0, 0.0); ntaps];
        let (w, r) = new_stream::<Complex>();
        let (mut b, o) = FftFilter::new_engine(r, ExactEngine::new(&taps));
        for fed in 1..5000usize {
            {
                let mut wb = w.write_buf().map_err(|e| e.to_string())?;
                wb.slice()[0] = Complex::new(1.0, 0.0);
                wb.produce(1, &[]);
            }
            let _ = b.work().map_err(|e| e.to_string())?;
            let (rb, _) = o.read_buf().map_err(|e| e.to_string())?;
            if rb.len() > 0 {
                if rb.len() != fed {
                    return Err(format!("{} out after {fed} in", rb.len()));
                }
                return Ok(fed + ntaps);
            }
        }
        Err("no output".into())
    });
    let obs = match obs {
        Ok(Ok(n)) => n.to_string(),
        Ok(Err(e)) => format!("error {e}"),
        Err(_) => "panic".into(),
    };
    format!("dsp fftsize {ntaps}\t{obs}")
}

pub fn run(args: &[String]) -> Vec<String> {
    let seed = arg_usize(args, "--seed", 1) as u64;
    let cases = arg_usize(args, "--cases", 100);
    rustradio::verif::set_stream_size(4096);
    let mut rng = Rng::new(seed ^ 0xd5b);
    let mut out = vec![];
    let mut counts = std::collections::BTreeMap::<&str, usize>::new();
    for n in [1usize, 2, 3, 4, 5, 7, 8, 9, 15, 16, 17, 31, 32, 33, 63, 64, 65, 100, 128, 129, 200] {
        out.push(fftsize_line(n));
        *counts.entry("fftsize").or_default() += 1;
    }
    for _ in 0..cases {
        out.push(dot_line(&mut rng));
        out.push(firn_line(&mut rng));
        out.push(iir_line(&mut rng));
        out.push(iirc_line(&mut rng));
        out.push(lowpass_check(&mut rng));
        out.push(hilbert_check(&mut rng));
        out.push(quad_check(&mut rng));
        out.push(engine_check(&mut rng));
        out.push(fftstream_check(&mut rng));
    }
    for _ in 0..(cases / 2).max(4) {
        out.push(fft_vs_fir(&mut rng));
    }
    *counts.entry("per_kind_cases").or_default() = cases;
    out.push(format!(
        "#{{\"dsp_kernel\":\"{}\",\"cases_per_kind\":{cases},\"fft_vs_fir_cases\":{}}}",
        kernel_name(),
        (cases / 2).max(4)
    ));
    out
}
