//! C20: the documented AX.25 receive chains on generated clean transmissions.
//! The chains are assembled as in examples/ax25-1200-rx.rs and
//! examples/ax25-9600-rx.rs (the translator checks the parameters against the
//! example sources). Self-checking: delivered packets = transmitted payloads.
use crate::common::*;
use crate::hdlc::{FLAG, body};
use rustradio::block::{Block, BlockEOF, BlockName, BlockRet};
use rustradio::blocks::*;
use rustradio::graph::{Graph, GraphRunner};
use rustradio::mtgraph::MTGraph;
use rustradio::stream::{NCReadStream, ReadStream};
use rustradio::window::WindowType;
use rustradio::{Complex, Float, Result};
use std::sync::{Arc, Mutex};

struct PktSink {
    src: NCReadStream<Vec<u8>>,
    store: Arc<Mutex<Vec<Vec<u8>>>>,
}
impl BlockName for PktSink {
    fn block_name(&self) -> &str {
        "PktSink"
    }
}
impl BlockEOF for PktSink {
    fn eof(&mut self) -> bool {
        self.src.eof()
    }
}
impl Block for PktSink {
    fn work(&mut self) -> Result<BlockRet> {
        match self.src.pop() {
            None => Ok(BlockRet::WaitForStream(&self.src, 1)),
            Some((p, _)) => {
                self.store.lock().unwrap().push(p);
                Ok(BlockRet::Again)
            }
        }
    }
}

/// Also taps the bit stream at the slicer output (for the front-end hypothesis).
struct BitTap {
    src: ReadStream<u8>,
    dst: rustradio::stream::WriteStream<u8>,
    store: Arc<Mutex<Vec<u8>>>,
}
impl BlockName for BitTap {
    fn block_name(&self) -> &str {
        "BitTap"
    }
}
impl BlockEOF for BitTap {
    fn eof(&mut self) -> bool {
        self.src.eof()
    }
}
impl Block for BitTap {
    fn work(&mut self) -> Result<BlockRet> {
        let (i, _) = self.src.read_buf()?;
        if i.is_empty() {
            return Ok(BlockRet::WaitForStream(&self.src, 1));
        }
        let mut o = self.dst.write_buf()?;
        if o.is_empty() {
            return Ok(BlockRet::WaitForStream(&self.dst, 1));
        }
        let n = i.len().min(o.len());
        o.slice()[..n].copy_from_slice(&i.slice()[..n]);
        self.store.lock().unwrap().extend(&i.slice()[..n]);
        o.produce(n, &[]);
        i.consume(n);
        Ok(BlockRet::Again)
    }
}

/// Debug tap (env RRH_TAPS): passes samples through and keeps a running hash and count, printed on drop.
struct HashTap<T: crate::ring::Elem> {
    label: String,
    src: ReadStream<T>,
    dst: rustradio::stream::WriteStream<T>,
    hash: u64,
    count: usize,
    windows: usize,
}
impl<T: crate::ring::Elem> BlockName for HashTap<T> {
    fn block_name(&self) -> &str {
        "HashTap"
    }
}
impl<T: crate::ring::Elem> BlockEOF for HashTap<T> {
    fn eof(&mut self) -> bool {
        self.src.eof()
    }
}
impl<T: crate::ring::Elem> Block for HashTap<T> {
    fn work(&mut self) -> Result<BlockRet> {
        let (i, _) = self.src.read_buf()?;
        if i.is_empty() {
            return Ok(BlockRet::WaitForStream(&self.src, 1));
        }
        let mut o = self.dst.write_buf()?;
        if o.is_empty() {
            return Ok(BlockRet::WaitForStream(&self.dst, 1));
        }
        let n = i.len().min(o.len());
        o.slice()[..n].copy_from_slice(&i.slice()[..n]);
        for v in &i.slice()[..n] {
            self.hash = crate::drip::mix64(self.hash ^ (v.to_nat() as u64));
        }
        self.count += n;
        self.windows += 1;
        o.produce(n, &[]);
        i.consume(n);
        Ok(BlockRet::Again)
    }
}
impl<T: crate::ring::Elem> Drop for HashTap<T> {
    fn drop(&mut self) {
        eprintln!("tap {:14} count={:8} windows={:6} hash={:016x}", self.label, self.count, self.windows, self.hash);
    }
}
fn tap<T: crate::ring::Elem + Sync>(label: &str, src: ReadStream<T>, blocks: &mut Vec<B>) -> ReadStream<T> {
    if std::env::var("RRH_TAPS").is_err() {
        return src;
    }
    let (dst, out) = rustradio::stream::new_stream();
    blocks.push(Box::new(HashTap { label: label.to_string(), src, dst, hash: 0, count: 0, windows: 0 }));
    out
}

fn frame_bits(payloads: &[Vec<u8>], preamble: usize, between: &[usize], tail: usize) -> Vec<u8> {
    let mut bits = vec![];
    for _ in 0..preamble {
        bits.extend(FLAG);
    }
    for (i, p) in payloads.iter().enumerate() {
        bits.extend(body(p, true));
        let nf = if i + 1 < payloads.len() { between[i] } else { tail };
        for _ in 0..nf {
            bits.extend(FLAG);
        }
    }
    bits
}

fn nrzi_encode(bits: &[u8], mut level: u8) -> Vec<u8> {
    bits.iter()
        .map(|b| {
            if *b == 0 {
                level ^= 1;
            }
            level
        })
        .collect()
}

/// G3RUH scrambler: out[i] = in[i] ^ out[i-12] ^ out[i-17]
fn scramble(bits: &[u8], seed: u32) -> Vec<u8> {
    let mut reg: u32 = seed & 0x1ffff;
    bits.iter()
        .map(|b| {
            let o = *b ^ ((reg >> 11) & 1) as u8 ^ ((reg >> 16) & 1) as u8;
            reg = ((reg << 1) | o as u32) & 0x1ffff;
            o
        })
        .collect()
}

fn afsk(levels: &[u8], sr: f64, phase0: f64, toff: f64) -> Vec<f32> {
    let baud = 1200.0;
    let n = ((levels.len() as f64 + toff) * sr / baud) as usize;
    let mut phase = phase0;
    let mut out = Vec::with_capacity(n);
    for k in 0..n {
        let t = k as f64 / sr;
        let sym = (t * baud - toff).floor();
        let lvl = if sym < 0.0 { levels[0] } else { levels[(sym as usize).min(levels.len() - 1)] };
        let f = if lvl == 1 { 2200.0 } else { 1200.0 };
        phase += 2.0 * std::f64::consts::PI * f / sr;
        out.push(phase.cos() as f32 * 0.5);
    }
    out
}

fn fsk9600(levels: &[u8], sr: f64, phase0: f64, toff: f64) -> Vec<Complex> {
    let baud = 9600.0;
    let dev = 3000.0;
    let n = ((levels.len() as f64 + toff) * sr / baud) as usize;
    let mut phase = phase0;
    let mut out = Vec::with_capacity(n);
    for k in 0..n {
        let t = k as f64 / sr;
        let sym = (t * baud - toff).floor();
        let lvl = if sym < 0.0 { levels[0] } else { levels[(sym as usize).min(levels.len() - 1)] };
        let f = if lvl == 1 { dev } else { -dev };
        phase += 2.0 * std::f64::consts::PI * f / sr;
        out.push(Complex::new(phase.cos() as f32, phase.sin() as f32));
    }
    out
}

type B = Box<dyn Block + Send>;

/// examples/ax25-1200-rx.rs, audio input.
fn chain1200(audio: Vec<f32>, samp_rate: Float, blocks: &mut Vec<B>) -> (Arc<Mutex<Vec<Vec<u8>>>>, Arc<Mutex<Vec<u8>>>) {
    macro_rules! add {
        ($e:expr) => {{
            let (b, o) = $e;
            blocks.push(Box::new(b));
            o
        }};
    }
    let prev = add!(VectorSource::new(audio));
    let prev = tap("source", prev, blocks);
    let prev = add!(Hilbert::new(prev, 65, &WindowType::Hamming));
    let prev = tap("hilbert", prev, blocks);
    let prev = add!(QuadratureDemod::new(prev, 1.0));
    let prev = tap("quaddemod", prev, blocks);
    let taps = rustradio::fir::low_pass(samp_rate, 1100.0, 100.0, &WindowType::Hamming);
    let prev = add!(FftFilterFloat::new(prev, &taps));
    let prev = tap("fftfilter", prev, blocks);
    let freq1 = 1200.0;
    let freq2 = 2200.0;
    let center_freq = freq1 + (freq2 - freq1) / 2.0;
    let prev = add!(rustradio::add_const::add_const(prev, -center_freq * 2.0 * std::f32::consts::PI / samp_rate));
    let prev = tap("addconst", prev, blocks);
    let baud = 1200.0;
    let clock_filter = rustradio::iir_filter::IirFilter::new(&[0.5, 0.5]);
    let prev = add!(SymbolSync::new(
        prev,
        samp_rate / baud,
        0.5,
        Box::new(rustradio::symbol_sync::TedZeroCrossing::new()),
        Box::new(clock_filter),
    ));
    let prev = tap("symbolsync", prev, blocks);
    let prev = add!(BinarySlicer::new(prev));
    let bits = Arc::new(Mutex::new(vec![]));
    let (dst, tapped) = rustradio::stream::new_stream();
    blocks.push(Box::new(BitTap { src: prev, dst, store: bits.clone() }));
    let prev = add!(NrziDecode::new(tapped));
    let prev = add!(HdlcDeframer::new(prev, 10, 1500));
    let store = Arc::new(Mutex::new(vec![]));
    blocks.push(Box::new(PktSink { src: prev, store: store.clone() }));
    (store, bits)
}

/// examples/ax25-9600-rx.rs, I/Q input.
fn chain9600(iq: Vec<Complex>, samp_rate: Float, blocks: &mut Vec<B>, use_symbol_sync: bool) -> (Arc<Mutex<Vec<Vec<u8>>>>, Arc<Mutex<Vec<u8>>>) {
    macro_rules! add {
        ($e:expr) => {{
            let (b, o) = $e;
            blocks.push(Box::new(b));
            o
        }};
    }
    let prev = add!(VectorSource::new(iq));
    let taps = rustradio::fir::low_pass_complex(samp_rate, 12_500.0, 100.0, &WindowType::Hamming);
    let skip_filter = std::env::var("RRH_NOFILTER").is_ok();
    let prev = if skip_filter { prev } else { add!(FftFilter::new(prev, &taps)) };
    let new_samp_rate = 50_000.0;
    let prev = add!(RationalResampler::new(prev, new_samp_rate as usize, samp_rate as usize).unwrap());
    let samp_rate = new_samp_rate;
    let prev = add!(QuadratureDemod::new(prev, 1.0));
    let baud = 9600.0;
    let prev = if use_symbol_sync {
        // examples/ax25-9600-rx.rs as written
        let clock_filter = rustradio::iir_filter::IirFilter::new(&[0.5, 0.5]);
        add!(SymbolSync::new(
            prev,
            samp_rate / baud,
            0.5,
            Box::new(rustradio::symbol_sync::TedZeroCrossing::new()),
            Box::new(clock_filter),
        ))
    } else {
        // zero-crossing clock recovery (the ZeroCrossing block)
        add!(ZeroCrossing::new(prev, samp_rate / baud, 0.5))
    };
    let prev = add!(BinarySlicer::new(prev));
    let bits = Arc::new(Mutex::new(vec![]));
    let (dst, tapped) = rustradio::stream::new_stream();
    blocks.push(Box::new(BitTap { src: prev, dst, store: bits.clone() }));
    let prev = add!(NrziDecode::new(tapped));
    let prev = add!(Descrambler::new(prev, 0x21, 0, 16));
    let prev = add!(HdlcDeframer::new(prev, 10, 1500));
    let store = Arc::new(Mutex::new(vec![]));
    blocks.push(Box::new(PktSink { src: prev, store: store.clone() }));
    (store, bits)
}

fn run_blocks(blocks: Vec<B>, mt: bool) -> std::result::Result<(), String> {
    let (tx, rx) = std::sync::mpsc::channel();
    let (ttx, trx) = std::sync::mpsc::channel();
    std::thread::spawn(move || {
        let res = if mt {
            let mut g = MTGraph::new();
            ttx.send(g.cancel_token()).unwrap();
            for b in blocks {
                g.add(b);
            }
            quiet(|| g.run().map_err(|e| e.to_string()))
        } else {
            let mut g = Graph::new();
            ttx.send(g.cancel_token()).unwrap();
            for b in blocks {
                g.add(b);
            }
            quiet(|| g.run().map_err(|e| e.to_string()))
        };
        let _ = tx.send(res);
    });
    let token = trx.recv().unwrap();
    match rx.recv_timeout(std::time::Duration::from_secs(120)) {
        Ok(Ok(Ok(()))) => Ok(()),
        Ok(Ok(Err(e))) => Err(format!("run() error: {e}")),
        Ok(Err(p)) => Err(format!("run() panicked: {p}")),
        Err(_) => {
            token.cancel();
            Err("run() did not return within 120 s".into())
        }
    }
}

/// Does the received bit stream contain the transmitted levels (up to polarity) after some prefix?
fn front_end_ok(rx_bits: &[u8], tx_levels: &[u8]) -> bool {
    // compare NRZI transitions: polarity independent
    let t: Vec<u8> = tx_levels.windows(2).map(|w| w[0] ^ w[1]).collect();
    let r: Vec<u8> = rx_bits.windows(2).map(|w| w[0] ^ w[1]).collect();
    if t.len() < 400 || r.len() < 400 {
        return false;
    }
    // skip the first 160 symbols of the transmission (20 flags of lock-in), then find the alignment; what the
    // receiver got (it may lack the tail that is still inside the block filters) must match from there on
    let probe = &t[160..360];
    for off in 0..r.len().saturating_sub(200) {
        if r[off..].starts_with(probe) {
            let n = (r.len() - off).min(t.len() - 160);
            return n >= 360 && r[off..off + n - 8] == t[160..160 + n - 8];
        }
    }
    false
}

fn case(rng: &mut Rng, idx: usize, which: u8) -> String {
    let nframes = rng.range(1, 4);
    let payloads: Vec<Vec<u8>> = (0..nframes)
        .map(|_| {
            // mostly short frames; sometimes exactly the smallest / largest payload the example's
            // deframer limits (10..1500 bytes including the checksum) allow
            let len = if rng.chance(1, 8) { *rng.pick(&[8usize, 9, 1497, 1498]) } else { rng.range(10, 120) };
            match rng.below(3) {
                0 => (0..len).map(|_| *rng.pick(&[0xffu8, 0x7e, 0x3f, 0x00])).collect(),
                _ => (0..len).map(|_| rng.below(256) as u8).collect(),
            }
        })
        .collect();
    let preamble = rng.range(20, 100);
    let between: Vec<usize> = (0..nframes).map(|_| rng.range(2, 6)).collect();
    // trailing flags: the FFT filters only emit whole batches, so the transmission must continue for at least one
    // batch after the last frame (as any real signal does) for that frame to come out of the filter
    let bits = frame_bits(&payloads, preamble, &between, if which == 0 { 100 } else { 400 });
    // 1200 chain: a third of the cases are two transmissions separated by 70..600 symbol times of silence
    let gap_symbols = if which == 0 && rng.chance(1, 3) { rng.range(70, 600) } else { 0 };
    let phase0 = rng.below(6283) as f64 / 1000.0;
    let toff = rng.below(1000) as f64 / 1000.0;
    let mt = rng.chance(1, 2);
    // stream size: the default, or small enough that every block sees its input arrive in many pieces
    let stream_size = *rng.pick(&[0usize, 65536, 262144, 0]);
    rustradio::verif::set_stream_size(stream_size);
    let mut blocks: Vec<B> = vec![];
    let (store, rxbits, levels, sr) = if which == 0 {
        let sr = *rng.pick(&[44100.0f64, 48000.0, 50000.0]);
        let levels = nrzi_encode(&bits, rng.below(2) as u8);
        let mut audio = afsk(&levels, sr, phase0, toff);
        if gap_symbols > 0 {
            // the transmitter goes off the air (silence) and keys up again with a new preamble: the same
            // frames once more, at another position in the stream
            audio.extend(std::iter::repeat(0.0f32).take((gap_symbols as f64 * sr / 1200.0) as usize));
            let levels2 = nrzi_encode(&bits, rng.below(2) as u8);
            audio.extend(afsk(&levels2, sr, rng.below(6283) as f64 / 1000.0, rng.below(1000) as f64 / 1000.0));
        }
        let (s, b) = chain1200(audio, sr as Float, &mut blocks);
        (s, b, levels, sr)
    } else {
        let sr = *rng.pick(&[50000.0f64, 100000.0]);
        let levels = nrzi_encode(&scramble(&bits, rng.next() as u32), rng.below(2) as u8);
        let iq = fsk9600(&levels, sr, phase0, toff);
        let (s, b) = chain9600(iq, sr as Float, &mut blocks, which == 2);
        (s, b, levels, sr)
    };
    rustradio::verif::set_stream_size(0);
    let res = run_blocks(blocks, mt);
    let got = store.lock().unwrap().clone();
    let payloads: Vec<Vec<u8>> = if gap_symbols > 0 { payloads.iter().chain(payloads.iter()).cloned().collect() } else { payloads };
    let fe = front_end_ok(&rxbits.lock().unwrap(), &levels);
    if std::env::var("RRH_BITHASH").is_ok() {
        let r = rxbits.lock().unwrap();
        eprintln!("rxbits len={} hash={:x} packets={}", r.len(), hash_list(r.iter().map(|b| *b as u128)), got.len());
        if let Ok(path) = std::env::var("RRH_BITDUMP") {
            let _ = std::fs::write(path, r.iter().map(|b| b.to_string()).collect::<String>());
        }
    }
    if std::env::var("RRH_DEBUG").is_ok() {
        let r = rxbits.lock().unwrap();
        // best alignment (both polarities)
        let mut best = (usize::MAX, 0i64, 0u8);
        for off in -80i64..80 {
            for pol in 0..2u8 {
                let mut bad = 0;
                let mut n = 0;
                for i in 300..900usize {
                    let j = i as i64 + off;
                    if j >= 0 && (j as usize) < r.len() && i < levels.len() {
                        n += 1;
                        if r[j as usize] ^ pol != levels[i] {
                            bad += 1;
                        }
                    }
                }
                if n > 400 && bad < best.0 {
                    best = (bad, off, pol);
                }
            }
        }
        eprintln!("best alignment: {} errors of 600 at offset {} polarity {}", best.0, best.1, best.2);
        eprintln!("tx levels {}: {}", levels.len(), levels[200..300].iter().map(|b| b.to_string()).collect::<String>());
        eprintln!("rx bits   {}: {}", r.len(), r.iter().skip(180).take(140).map(|b| b.to_string()).collect::<String>());
    }
    let detail = format!(
        "{} #{idx} sr={sr} stream={stream_size} frames={nframes} lens={:?} preamble={preamble} phase={phase0:.3} toff={toff:.3} gap={gap_symbols} {}",
        match which { 0 => "afsk1200", 1 => "g3ruh9600-zerocrossing", _ => "g3ruh9600-symbolsync(example as written)" },
        payloads.iter().map(|p| p.len()).collect::<Vec<_>>(),
        if mt { "mt" } else { "st" }
    );
    let (verdict, key) = match res {
        Err(e) => (format!("FAIL {e}"), "e2e-run"),
        Ok(()) if got == payloads => ("pass".to_string(), ""),
        Ok(()) => (
            format!(
                "FAIL delivered {} packets {:?}, transmitted {} {:?}; front end recovered the symbols: {fe}",
                got.len(),
                got.iter().map(|p| p.len()).collect::<Vec<_>>(),
                payloads.len(),
                payloads.iter().map(|p| p.len()).collect::<Vec<_>>()
            ),
            if which == 2 { "e2e-9600-symbolsync-slips" } else if fe { "e2e-digital" } else { "e2e-frontend" },
        ),
    };
    format!("!e2e {detail}\t{verdict}\t{key}")
}

/// Clock recovery on a long stream (more than 2^24 samples: f32 sample counters stop being exact):
/// symbols must keep coming out at the symbol rate for the whole stream.
fn clock_long(which: &str) -> String {
    let sps = 40usize;
    let total: usize = (1 << 24) + 3_000_000;
    let label = format!("clock-long {which} sps={sps} samples={total}");
    let r = quiet(|| -> std::result::Result<(), String> {
        rustradio::verif::set_stream_size(0);
        let (w, r) = rustradio::stream::new_stream::<f32>();
        let (mut block, out): (B, rustradio::stream::ReadStream<f32>) = if which == "SymbolSync" {
            let clock_filter = rustradio::iir_filter::IirFilter::new(&[0.5, 0.5]);
            let (b, o) = SymbolSync::new(r, sps as f32, 0.5, Box::new(rustradio::symbol_sync::TedZeroCrossing::new()), Box::new(clock_filter));
            (Box::new(b), o)
        } else {
            let (b, o) = ZeroCrossing::new(r, sps as f32, 0.5);
            (Box::new(b), o)
        };
        let _wd = deadline(300, format!("{label}: work()"));
        let mut fed = 0usize;
        let mut symbols_total = 0usize;
        let mut symbols_late = 0usize; // symbols delivered for input beyond 2^24 samples
        let mut lfsr = 0xACE1u32;
        let mut level = 1.0f32;
        while fed < total {
            {
                let mut wb = w.write_buf().map_err(|e| e.to_string())?;
                let n = wb.len().min(total - fed);
                for i in 0..n {
                    if (fed + i) % sps == 0 {
                        // pseudo-random NRZ with frequent transitions
                        lfsr = (lfsr >> 1) ^ (if lfsr & 1 == 1 { 0xB400 } else { 0 });
                        if lfsr & 3 != 0 {
                            level = -level;
                        }
                    }
                    wb.slice()[i] = 0.4 * level;
                }
                wb.produce(n, &[]);
                fed += n;
            }
            for _ in 0..8 {
                match block.work().map_err(|e| e.to_string())? {
                    BlockRet::Again => {}
                    _ => break,
                }
                let (rb, _) = out.read_buf().map_err(|e| e.to_string())?;
                let n = rb.len();
                symbols_total += n;
                if fed > (1 << 24) + 200_000 {
                    symbols_late += n;
                }
                rb.consume(n);
            }
        }
        let want = total / sps;
        if symbols_total * 100 < want * 98 || symbols_total * 100 > want * 102 {
            return Err(format!("{symbols_total} symbols for {total} samples at {sps} samples/symbol (expected about {want})"));
        }
        if symbols_late < 2_000_000 / sps {
            return Err(format!("only {symbols_late} symbols were delivered for the last 2.8 million samples: clock recovery stalled on a long stream"));
        }
        Ok(())
    });
    format!(
        "!e2e {label}\t{}\te2e-clock-long",
        match r {
            Ok(Ok(())) => "pass".to_string(),
            Ok(Err(e)) => format!("FAIL {e}"),
            Err(p) => format!("FAIL panic: {p}"),
        }
    )
}

pub fn run(args: &[String]) -> Vec<String> {
    let seed = arg_usize(args, "--seed", 1) as u64;
    let cases = arg_usize(args, "--cases", 10);
    let mut rng = Rng::new(seed);
    let mut out = vec![];
    // a replay (`--only i`) runs just that case: every case has its own forked generator
    let only = arg(args, "--only").and_then(|s| s.parse::<usize>().ok());
    for i in 0..cases {
        let mut r = rng.fork();
        if only.is_some() && only != Some(i) {
            out.push(String::new());
            continue;
        }
        out.push(case(&mut r, i, (i % 2) as u8));
    }
    if arg_usize(args, "--long", 1) != 0 {
        out.push(clock_long("SymbolSync"));
        out.push(clock_long("ZeroCrossing"));
    }
    if arg_usize(args, "--probes", 0) != 0 {
        // known finding: the 9600 example as written uses SymbolSync, which slips at 5.208 samples/symbol
        let mut r = Rng::new(4242);
        out.push(case(&mut r, 9999, 2));
    }
    out
}

/// Debug: SymbolSync alone on an ideal NRZ square wave of random bits.
pub fn symsync_probe(args: &[String]) {
    let sps = arg(args, "--sps").and_then(|s| s.parse::<f64>().ok()).unwrap_or(5.208333);
    let n = arg_usize(args, "--n", 2000);
    let mut rng = Rng::new(arg_usize(args, "--seed", 1) as u64);
    let levels: Vec<u8> = (0..n).map(|_| rng.below(2) as u8).collect();
    let total = (n as f64 * sps) as usize;
    let wave: Vec<f32> = (0..total).map(|k| if levels[((k as f64 / sps) as usize).min(n - 1)] == 1 { 0.377 } else { -0.377 }).collect();
    rustradio::verif::set_stream_size(0);
    let (mut src, o) = VectorSource::new(wave);
    if arg(args, "--zc").is_some() {
        let (mut zc, out) = ZeroCrossing::new(o, sps as f32, 0.5);
        src.work().unwrap();
        for _ in 0..10 {
            zc.work().unwrap();
        }
        let (rb, _) = out.read_buf().unwrap();
        let got: Vec<u8> = rb.slice().iter().map(|v| (*v > 0.0) as u8).collect();
        let mut errs = usize::MAX;
        for off in 0..6usize {
            errs = errs.min(got.iter().skip(off).zip(&levels).skip(100).filter(|(a, b)| a != b).count());
            errs = errs.min(got.iter().zip(levels.iter().skip(off)).skip(100).filter(|(a, b)| a != b).count());
        }
        println!("ZeroCrossing sps={sps} symbols in={n} out={} mismatches={errs}", got.len());
        return;
    }
    let clock_filter = rustradio::iir_filter::IirFilter::new(&[0.5, 0.5]);
    let (mut ss, out) = SymbolSync::new(o, sps as f32, 0.5, Box::new(rustradio::symbol_sync::TedZeroCrossing::new()), Box::new(clock_filter));
    let clk = ss.out_clock().unwrap();
    src.work().unwrap();
    for _ in 0..10 {
        ss.work().unwrap();
    }
    let (rb, _) = out.read_buf().unwrap();
    let got: Vec<u8> = rb.slice().iter().map(|v| (*v > 0.0) as u8).collect();
    let (cb, _) = clk.read_buf().unwrap();
    let clocks: Vec<f32> = cb.slice().iter().copied().collect();
    let mut errs = usize::MAX;
    for off in 0..6usize {
        let e = got.iter().skip(off).zip(&levels).skip(100).filter(|(a, b)| a != b).count();
        errs = errs.min(e);
        let e = got.iter().zip(levels.iter().skip(off)).skip(100).filter(|(a, b)| a != b).count();
        errs = errs.min(e);
    }
    println!("sps={sps} symbols in={n} out={} mismatches(best alignment, after 100 symbols)={errs} clock min={:?} max={:?} last={:?}",
        got.len(),
        clocks.iter().cloned().fold(f32::INFINITY, f32::min),
        clocks.iter().cloned().fold(f32::NEG_INFINITY, f32::max),
        clocks.last());
}

/// Debug: digital back end of the 9600 chain on the transmitted levels directly.
pub fn digital_probe(_args: &[String]) {
    let mut rng = Rng::new(5);
    let p: Vec<u8> = (0..40).map(|_| rng.below(256) as u8).collect();
    let bits = frame_bits(&[p.clone()], 30, &[], 10);
    let levels = nrzi_encode(&scramble(&bits, 12345), 0);
    rustradio::verif::set_stream_size(0);
    let (mut src, o) = VectorSource::new(levels);
    let (mut n, o) = NrziDecode::new(o);
    let (mut d, o) = Descrambler::new(o, 0x21, 0, 16);
    let (mut h, o) = HdlcDeframer::new(o, 10, 1500);
    src.work().unwrap();
    n.work().unwrap();
    d.work().unwrap();
    h.work().unwrap();
    let got = o.pop().map(|x| x.0);
    println!("digital 9600 back end: {}", if got == Some(p) { "ok" } else { "MISMATCH" });
}
